//! Vec-backed stand-in for the `lru` crate (API subset used by `dht`).
//! Entries are kept most-recently-used first, like `lru::LruCache::iter()`.
use std::borrow::Borrow;
use std::num::NonZeroUsize;

#[derive(Clone)]
pub struct LruCache<K, V> {
    cap: NonZeroUsize,
    entries: Vec<(K, V)>,
}

impl<K: Eq, V> LruCache<K, V> {
    pub fn new(cap: NonZeroUsize) -> Self {
        Self { cap, entries: Vec::new() }
    }
    pub fn len(&self) -> usize {
        self.entries.len()
    }
    pub fn is_empty(&self) -> bool {
        self.entries.is_empty()
    }
    pub fn cap(&self) -> NonZeroUsize {
        self.cap
    }
    fn position<Q>(&self, k: &Q) -> Option<usize>
    where
        K: Borrow<Q>,
        Q: Eq + ?Sized,
    {
        let mut i = 0;
        while i < self.entries.len() {
            if self.entries[i].0.borrow() == k {
                return Some(i);
            }
            i += 1;
        }
        None
    }
    /// Move entry `i` to the front by adjacent swaps (no memmove at a symbolic index).
    fn promote(&mut self, i: usize) {
        let mut j = self.entries.len();
        while j > 1 {
            j -= 1;
            if j <= i {
                self.entries.swap(j, j - 1);
            }
        }
    }
    pub fn put(&mut self, k: K, v: V) -> Option<V> {
        if let Some(i) = self.position(&k) {
            let old = std::mem::replace(&mut self.entries[i], (k, v));
            self.promote(i);
            return Some(old.1);
        }
        if self.entries.len() >= self.cap.get() {
            let last = self.entries.len() - 1;
            self.entries[last] = (k, v);
            self.promote(last);
        } else {
            self.entries.push((k, v));
            let last = self.entries.len() - 1;
            self.promote(last);
        }
        None
    }
    pub fn get<'a, Q>(&'a mut self, k: &Q) -> Option<&'a V>
    where
        K: Borrow<Q>,
        Q: Eq + ?Sized,
    {
        let i = self.position(k)?;
        self.promote(i);
        Some(&self.entries[0].1)
    }
    pub fn get_mut<'a, Q>(&'a mut self, k: &Q) -> Option<&'a mut V>
    where
        K: Borrow<Q>,
        Q: Eq + ?Sized,
    {
        let i = self.position(k)?;
        self.promote(i);
        Some(&mut self.entries[0].1)
    }
    pub fn peek<'a, Q>(&'a self, k: &Q) -> Option<&'a V>
    where
        K: Borrow<Q>,
        Q: Eq + ?Sized,
    {
        let i = self.position(k)?;
        Some(&self.entries[i].1)
    }
    pub fn contains<Q>(&self, k: &Q) -> bool
    where
        K: Borrow<Q>,
        Q: Eq + ?Sized,
    {
        self.position(k).is_some()
    }
    pub fn pop_lru(&mut self) -> Option<(K, V)> {
        self.entries.pop()
    }
    pub fn iter(&self) -> Iter<'_, K, V> {
        Iter { inner: self.entries.iter() }
    }
}

pub struct Iter<'a, K, V> {
    inner: std::slice::Iter<'a, (K, V)>,
}
impl<'a, K, V> Iterator for Iter<'a, K, V> {
    type Item = (&'a K, &'a V);
    fn next(&mut self) -> Option<Self::Item> {
        self.inner.next().map(|(k, v)| (k, v))
    }
    fn size_hint(&self) -> (usize, Option<usize>) {
        self.inner.size_hint()
    }
}
impl<'a, K, V> ExactSizeIterator for Iter<'a, K, V> {}

impl<K, V> std::fmt::Debug for LruCache<K, V> {
    fn fmt(&self, f: &mut std::fmt::Formatter<'_>) -> std::fmt::Result {
        f.debug_struct("LruCache").field("len", &self.entries.len()).field("cap", &self.cap).finish()
    }
}

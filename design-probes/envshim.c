#define _GNU_SOURCE
#include <time.h>
#include <stdint.h>
#include <string.h>
#include <sys/types.h>
static int64_t virt_s = 1000000;
static unsigned char rnd_byte = 0x42;
void verif_set_clock(int64_t s) { virt_s = 1000000 + s; }
void verif_set_rand(unsigned char b) { rnd_byte = b; }
int clock_gettime(clockid_t id, struct timespec *ts) { (void)id; ts->tv_sec = virt_s; ts->tv_nsec = 0; return 0; }
ssize_t getrandom(void *buf, size_t len, unsigned int flags) { (void)flags; memset(buf, rnd_byte, len); return (ssize_t)len; }

#![allow(dead_code)]
use crate::common::{Id, Node, ClosestNodes, RoutingTable, KBucket, Message};
use std::net::SocketAddrV4;

pub mod clock {
    use std::time::Instant;
    #[repr(C)]
    struct Raw { secs: i64, nanos: u32, pad: u32 }
    pub static mut NOW_S: u64 = 0;
    pub fn now() -> Instant {
        unsafe { std::mem::transmute::<Raw, Instant>(Raw { secs: 1_000_000 + NOW_S as i64, nanos: 0, pad: 0 }) }
    }
    pub fn set(s: u64) { unsafe { NOW_S = s } }
}
pub mod rs {
    #[repr(C)]
    struct RawRS { k0: u64, k1: u64 }
    pub fn new_random_state() -> std::hash::RandomState {
        unsafe { std::mem::transmute::<RawRS, std::hash::RandomState>(RawRS { k0: 1, k1: 2 }) }
    }
    pub fn fill(dest: &mut [u8]) -> Result<(), getrandom::Error> {
        let mut i = 0;
        while i < dest.len() { dest[i] = kani::any(); i += 1; }
        Ok(())
    }
    pub fn fmt_stub(_: std::fmt::Arguments<'_>) -> String { String::new() }
}

pub fn stub_is_secure(n: &Node) -> bool { n.address().ip().octets()[3] & 1 == 1 }

pub fn any_node() -> Node {
    let a: [u8; 20] = kani::any();
    Node::new(Id::from(a), SocketAddrV4::new(kani::any::<u32>().into(), kani::any()))
}
pub fn private_node() -> Node {
    let mut a = [0u8; 20];
    a[0] = kani::any(); a[1] = kani::any();
    let ip: u32 = 0x0a000000 | (kani::any::<u8>() as u32);
    Node::new(Id::from(a), SocketAddrV4::new(ip.into(), 6881))
}

fn check_sorted3(c: &ClosestNodes, t: &Id) {
    let ns = c.nodes();
    assert!(ns.len() <= 3);
    for i in 1..3usize {
        if i < ns.len() {
            let (p, q) = (&ns[i - 1], &ns[i]);
            let (sp, sq) = (p.is_secure(), q.is_secure());
            assert!(sp || !sq);
            if sp == sq {
                assert!(p.id().xor(t) <= q.id().xor(t));
            }
        }
    }
}

#[kani::proof]
#[kani::stub(std::time::Instant::now, clock::now)]
#[kani::unwind(21)]
fn a1_closest3_full() {
    let target: [u8; 20] = kani::any();
    let t = Id::from(target);
    let mut c = ClosestNodes::new(t);
    c.add(any_node());
    c.add(any_node());
    c.add(any_node());
    check_sorted3(&c, &t);
    kani::cover!(c.nodes().len() == 3);
    std::mem::forget(c);
}

#[kani::proof]
#[kani::stub(std::time::Instant::now, clock::now)]
#[kani::stub(crate::common::node::Node::is_secure, stub_is_secure)]
#[kani::unwind(21)]
fn a2_closest3_stubsecure() {
    let target: [u8; 20] = kani::any();
    let t = Id::from(target);
    let mut c = ClosestNodes::new(t);
    c.add(any_node());
    c.add(any_node());
    c.add(any_node());
    check_sorted3(&c, &t);
    kani::cover!(c.nodes().len() == 3);
    std::mem::forget(c);
}

#[kani::proof]
#[kani::stub(std::time::Instant::now, clock::now)]
#[kani::unwind(21)]
fn d_kbucket_add3() {
    let mut b = KBucket::new();
    b.add(private_node());
    b.add(private_node());
    b.add(private_node());
    let s = b.iter().as_slice();
    assert!(s.len() <= 3);
    for i in 0..3usize { for j in 0..3usize {
        if i < j && j < s.len() { assert!(s[i].id() != s[j].id()); }
    } }
    kani::cover!(s.len() == 3);
    kani::cover!(s.len() == 1);
    std::mem::forget(b);
}

#[kani::proof]
#[kani::stub(std::time::Instant::now, clock::now)]
#[kani::unwind(21)]
fn e_rt_add2() {
    let mut me = [0u8; 20];
    me[0] = kani::any();
    let mut rt = RoutingTable::new(Id::from(me));
    rt.add(private_node());
    rt.add(private_node());
    let n = rt.size();
    assert!(n <= 2);
    assert!(rt.is_empty() == (n == 0));
    kani::cover!(n == 2);
    std::mem::forget(rt);
}

#[kani::proof]
#[kani::stub(alloc::fmt::format, rs::fmt_stub)]
#[kani::unwind(64)]
fn i0_parse_concrete_ping() {
    let bytes = b"d1:ad2:id20:abcdefghij0123456789e1:q4:ping1:t2:aa1:y1:qe";
    let m = Message::from_bytes(bytes);
    assert!(m.is_ok());
    std::mem::forget(m);
}

#[kani::proof]
#[kani::stub(std::hash::RandomState::new, rs::new_random_state)]
#[kani::unwind(21)]
fn h2_hashmap_id() {
    let mut m: std::collections::HashMap<Id, u32> = std::collections::HashMap::new();
    let mut x = [0u8; 20]; x[0] = kani::any();
    let mut y = [0u8; 20]; y[0] = kani::any();
    let (a, b) = (Id::from(x), Id::from(y));
    m.insert(a, 1);
    m.insert(b, 2);
    assert!(m.get(&b) == Some(&2));
    if a != b { assert!(m.get(&a) == Some(&1)); }
    std::mem::forget(m);
}

#[kani::proof]
#[kani::stub(std::hash::RandomState::new, rs::new_random_state)]
#[kani::unwind(21)]
fn h3_lru_id() {
    let mut m: lru::LruCache<Id, u32> = lru::LruCache::new(std::num::NonZeroUsize::new(2).unwrap());
    let mut x = [0u8; 20]; x[0] = kani::any();
    let mut y = [0u8; 20]; y[0] = kani::any();
    let (a, b) = (Id::from(x), Id::from(y));
    m.put(a, 1);
    m.put(b, 2);
    assert!(m.get(&b) == Some(&2));
    if a != b { assert!(m.get(&a) == Some(&1)); }
    assert!(m.len() <= 2);
    std::mem::forget(m);
}

#[kani::proof]
#[kani::unwind(8)]
fn g1_from_str_total4() {
    let b: [u8; 4] = kani::any();
    let len: usize = kani::any();
    kani::assume(len <= 4);
    if let Ok(s) = std::str::from_utf8(&b[..len]) {
        let r = <Id as std::str::FromStr>::from_str(s);
        assert!(r.is_err());
        std::mem::forget(r);
    }
}

#[kani::proof]
#[kani::unwind(8)]
fn fl1_create_forget() {
    let (tx, rx) = flume::unbounded::<u8>();
    std::mem::forget(tx); std::mem::forget(rx);
}
#[kani::proof]
#[kani::unwind(8)]
fn fl2_send_forget() {
    let (tx, rx) = flume::unbounded::<u8>();
    let _ = tx.send(kani::any());
    std::mem::forget(tx); std::mem::forget(rx);
}
#[kani::proof]
#[kani::unwind(8)]
fn fl3_send_tryrecv() {
    let (tx, rx) = flume::unbounded::<u8>();
    let v: u8 = kani::any();
    let _ = tx.send(v);
    let r = rx.try_recv();
    assert!(r == Ok(v));
    std::mem::forget(tx); std::mem::forget(rx);
}
#[kani::proof]
#[kani::unwind(8)]
fn fl4_drop() {
    let (tx, rx) = flume::unbounded::<u8>();
    drop(tx); drop(rx);
}
#[kani::proof]
#[kani::unwind(8)]
fn fl5_recv() {
    let (tx, rx) = flume::unbounded::<u8>();
    let v: u8 = kani::any();
    let _ = tx.send(v);
    drop(tx);
    let r = rx.recv();
    assert!(r == Ok(v));
    std::mem::forget(rx);
}

#[kani::proof]
#[kani::stub(std::hash::RandomState::new, rs::new_random_state)]
#[kani::unwind(21)]
fn h4_hashmap_concrete_keys() {
    let mut m: std::collections::HashMap<Id, u32> = std::collections::HashMap::new();
    let a = Id::from([5u8; 20]);
    let v: u32 = kani::any();
    m.insert(a, v);
    assert!(m.get(&a) == Some(&v));
    if v > 7 { m.remove(&a); }
    assert!(m.contains_key(&a) == (v <= 7));
    std::mem::forget(m);
}

#[kani::proof]
#[kani::stub(std::hash::RandomState::new, rs::new_random_state)]
#[kani::unwind(21)]
fn h5_lru_concrete_keys() {
    let mut m: lru::LruCache<Id, u32> = lru::LruCache::new(std::num::NonZeroUsize::new(1).unwrap());
    let a = Id::from([5u8; 20]);
    let b = Id::from([6u8; 20]);
    let v: u32 = kani::any();
    m.put(a, v);
    assert!(m.peek(&a) == Some(&v));
    if v > 7 { m.put(b, 1); }
    assert!(m.contains(&a) == (v <= 7));
    assert!(m.len() == 1);
    std::mem::forget(m);
}

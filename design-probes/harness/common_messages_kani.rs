use super::*;
use serde_bytes::ByteBuf;

fn any_boxed(max: usize) -> Box<[u8]> {
    let len: usize = kani::any();
    kani::assume(len <= max);
    let v = vec![0u8; len];
    v.into_boxed_slice()
}

#[kani::proof]
#[kani::unwind(6)]
fn f1_from_serde_put_value_total() {
    let msg = internal::DHTMessage {
        transaction_id: vec![kani::any(), kani::any()],
        version: kani::any(),
        ip: kani::any(),
        read_only: kani::any(),
        variant: internal::DHTMessageVariant::Request(internal::DHTRequestSpecific::PutValue {
            arguments: internal::DHTPutValueRequestArguments {
                id: kani::any(),
                target: kani::any(),
                token: any_boxed(4),
                v: any_boxed(4),
                k: kani::any(),
                sig: kani::any(),
                seq: kani::any(),
                cas: kani::any(),
                salt: if kani::any() { Some(any_boxed(4)) } else { None },
            },
        }),
    };
    let r = Message::from_serde_message(msg);
    kani::cover!(r.is_ok());
    std::mem::forget(r);
}

#[kani::proof]
#[kani::unwind(6)]
fn f2_from_serde_signed_peers_total() {
    let len: usize = kani::any();
    kani::assume(len <= 210);
    let entry = ByteBuf::from(vec![0u8; len]);
    let msg = internal::DHTMessage {
        transaction_id: vec![kani::any(), kani::any()],
        version: None,
        ip: None,
        read_only: None,
        variant: internal::DHTMessageVariant::Response(internal::DHTResponseSpecific::GetSignedPeers {
            arguments: internal::DHTGetSignedPeersResponseArguments {
                id: kani::any(),
                token: any_boxed(4),
                nodes: None,
                peers: vec![entry],
            },
        }),
    };
    let r = Message::from_serde_message(msg);
    kani::cover!(r.is_ok());
    std::mem::forget(r);
}

#[kani::proof]
#[kani::unwind(4)]
fn f1b_from_serde_put_value_total() {
    let msg = internal::DHTMessage {
        transaction_id: vec![1, 2],
        version: None,
        ip: None,
        read_only: None,
        variant: internal::DHTMessageVariant::Request(internal::DHTRequestSpecific::PutValue {
            arguments: internal::DHTPutValueRequestArguments {
                id: [1; 20],
                target: [2; 20],
                token: Box::new([1, 2, 3, 4]),
                v: Box::new([7]),
                k: if kani::any() { Some([3; 32]) } else { None },
                sig: if kani::any() { Some([4; 64]) } else { None },
                seq: kani::any(),
                cas: kani::any(),
                salt: None,
            },
        }),
    };
    let r = Message::from_serde_message(msg);
    kani::cover!(r.is_ok());
    std::mem::forget(r);
}

#[kani::proof]
#[kani::unwind(4)]
fn f1c_put_value_k_without_seq() {
    let msg = internal::DHTMessage {
        transaction_id: vec![1, 2],
        version: None,
        ip: None,
        read_only: None,
        variant: internal::DHTMessageVariant::Request(internal::DHTRequestSpecific::PutValue {
            arguments: internal::DHTPutValueRequestArguments {
                id: kani::any(),
                target: kani::any(),
                token: Box::new([1, 2, 3, 4]),
                v: Box::new([7]),
                k: Some(kani::any()),
                sig: Some(kani::any()),
                seq: None,
                cas: kani::any(),
                salt: None,
            },
        }),
    };
    let r = Message::from_serde_message(msg);
    std::mem::forget(r);
}

#[kani::proof]
#[kani::unwind(4)]
fn f1d_put_value_presence_concrete_arrays() {
    let msg = internal::DHTMessage {
        transaction_id: vec![1, 2],
        version: None,
        ip: None,
        read_only: kani::any(),
        variant: internal::DHTMessageVariant::Request(internal::DHTRequestSpecific::PutValue {
            arguments: internal::DHTPutValueRequestArguments {
                id: [1; 20],
                target: [2; 20],
                token: Box::new([1, 2, 3, 4]),
                v: Box::new([7]),
                k: Some([3; 32]),
                sig: Some([4; 64]),
                seq: kani::any(),
                cas: kani::any(),
                salt: None,
            },
        }),
    };
    let r = Message::from_serde_message(msg);
    std::mem::forget(r);
}

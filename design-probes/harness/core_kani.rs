use super::*;
use crate::verif_harness::{clock, rs};
use crate::common::PutMutableRequestArguments;

fn small_settings() -> ServerSettings {
    ServerSettings { max_info_hashes: 1, max_peers_per_info_hash: 1, max_immutable_values: 1, max_mutable_values: 1, ..Default::default() }
}

fn pm(seq: i64, sig0: u8, cas: Option<i64>) -> PutRequestSpecific {
    let mut sig = [0u8; 64];
    sig[0] = sig0;
    PutRequestSpecific::PutMutable(PutMutableRequestArguments {
        target: Id::from([5u8; 20]), v: Box::new([]), k: [0; 32], seq, sig, salt: None, cas,
    })
}

#[kani::proof]
#[kani::stub(std::time::Instant::now, clock::now)]
#[kani::stub(getrandom::fill, rs::fill)]
#[kani::stub(std::hash::RandomState::new, rs::new_random_state)]
#[kani::unwind(66)]
fn k1_core_concurrency() {
    let mut core = Core::new(Id::from([1u8; 20]), vec![], false, small_settings());
    let s1: i64 = kani::any();
    let g1: u8 = kani::any();
    core.put_queries.insert(Id::from([5u8; 20]), PutQuery::new(pm(s1, g1, None), None));
    let s2: i64 = kani::any();
    let g2: u8 = kani::any();
    let cas: Option<i64> = kani::any();
    let r = core.check_concurrency_errors(&pm(s2, g2, cas));
    if g1 == g2 { assert!(r.is_ok()); }
    else if s2 < s1 { assert!(matches!(r, Err(ConcurrencyError::NotMostRecent))); }
    else if cas.is_none() { assert!(matches!(r, Err(ConcurrencyError::ConflictRisk))); }
    else if cas == Some(s1) { assert!(r.is_ok()); assert!(!core.put_queries.contains_key(&Id::from([5u8; 20]))); }
    else { assert!(matches!(r, Err(ConcurrencyError::CasFailed))); }
    std::mem::forget(core);
}

use crate::actor::socket::kani_h::{fake_socket, send_stub, srt_stub};
use crate::common::{GetValueRequestArguments, GetImmutableResponseArguments, Message, MessageType, ResponseSpecific, hash_immutable};
use std::net::SocketAddrV4;

// uninterpreted hash: one-entry-per-distinct-first-byte ghost table (inputs here are 1 byte long)
static mut H_SET: [bool; 2] = [false; 2];
static mut H_IN: [u8; 2] = [0; 2];
static mut H_OUT: [[u8; 20]; 2] = [[0; 20]; 2];
fn h_stub(v: &[u8]) -> [u8; 20] {
    assert!(v.len() == 1);
    let b = v[0];
    unsafe {
        for i in 0..2usize {
            if H_SET[i] && H_IN[i] == b { return H_OUT[i]; }
        }
        for i in 0..2usize {
            if !H_SET[i] { H_SET[i] = true; H_IN[i] = b; H_OUT[i] = kani::any(); return H_OUT[i]; }
        }
    }
    kani::assume(false);
    [0; 20]
}

static mut CUT_REACHED: bool = false;
fn mut_stub(_t: Id, _k: &[u8], _v: Box<[u8]>, _seq: i64, _sig: &[u8], _salt: Option<Box<[u8]>>) -> Result<MutableItem, crate::common::MutableError> {
    unsafe { CUT_REACHED = true; }
    Err(crate::common::MutableError::InvalidMutableSignature)
}
fn sa_stub(_i: &Id, _k: &[u8], _t: u64, _s: &[u8]) -> Result<SignedAnnounce, crate::common::SignedAnnounceError> {
    unsafe { CUT_REACHED = true; }
    Err(crate::common::SignedAnnounceError::Signature)
}

#[kani::proof]
#[kani::stub(crate::common::node::Node::is_secure, crate::verif_harness::stub_is_secure)]
#[kani::stub(crate::common::immutable::hash_immutable, h_stub)]
#[kani::stub(crate::common::mutable::MutableItem::from_dht_message, mut_stub)]
#[kani::stub(crate::common::signed_announce::SignedAnnounce::from_dht_response, sa_stub)]
#[kani::stub(std::time::Instant::now, clock::now)]
#[kani::stub(getrandom::fill, rs::fill)]
#[kani::stub(crate::actor::socket::KrpcSocket::send, send_stub)]
#[kani::stub(std::net::UdpSocket::set_read_timeout, srt_stub)]
#[kani::unwind(22)]
fn k2_handle_response_immutable() {
    clock::set(0);
    let mut core = Core::new(Id::from([1u8; 20]), vec![], false, small_settings());
    let mut socket = fake_socket(false);
    let target: Id = hash_immutable(&[7u8]).into();
    let mut q = IterativeQuery::new(Id::from([1u8; 20]), target, GetRequestSpecific::GetValue(GetValueRequestArguments { target, seq: None, salt: None }));
    let peer = SocketAddrV4::new([10, 0, 0, 9].into(), 6881);
    q.visit(&mut socket, peer);
    core.iterative_queries.insert(target, q);
    let b: u8 = kani::any();
    let msg = Message {
        transaction_id: 0,
        version: None,
        requester_ip: None,
        read_only: false,
        message_type: MessageType::Response(ResponseSpecific::GetImmutable(GetImmutableResponseArguments {
            responder_id: Id::from([9u8; 20]),
            token: Box::new([1, 2, 3, 4]),
            nodes: None,
            v: Box::new([b]),
        })),
    };
    let ro = msg.read_only;
    let out = core.handle_response(peer, msg);
    match &out {
        Some((t, Response::Immutable(v))) => {
            assert!(*t == target);
            assert!(hash_immutable(v) == *target.as_bytes());
            assert!(!ro);
        }
        Some(_) => { assert!(false); }
        None => {}
    }
    assert!(unsafe { !CUT_REACHED });
    kani::cover!(out.is_some());
    kani::cover!(out.is_none() && !ro);
    std::mem::forget(out); std::mem::forget(core); std::mem::forget(socket);
}

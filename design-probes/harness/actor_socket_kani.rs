use super::*;
use crate::verif_harness::clock;
use crate::common::{Id, PingResponseArguments};

pub(crate) fn fake_socket(server_mode: bool) -> KrpcSocket {
    use std::os::fd::FromRawFd;
    KrpcSocket {
        socket: unsafe { UdpSocket::from_raw_fd(3) },
        server_mode,
        local_addr: SocketAddrV4::new([127, 0, 0, 1].into(), 6881),
        inflight_requests: InflightRequests::new(),
        poll_interval: MIN_POLL_INTERVAL,
    }
}
pub(crate) fn send_stub(_s: &mut KrpcSocket, _a: SocketAddrV4, _m: Message) -> Result<(), SendMessageError> { Ok(()) }
pub(crate) fn srt_stub(_s: &UdpSocket, _d: Option<Duration>) -> std::io::Result<()> { Ok(()) }
pub(crate) fn rtt_stub(_s: &mut InflightRequests, _d: Duration) {}

fn resp(tid: u32) -> Message {
    Message {
        transaction_id: tid,
        version: None,
        requester_ip: None,
        read_only: false,
        message_type: MessageType::Response(ResponseSpecific::Ping(PingResponseArguments { responder_id: Id::from([7u8; 20]) })),
    }
}

#[kani::proof]
#[kani::stub(std::time::Instant::now, clock::now)]
#[kani::stub(InflightRequests::update_rtt_estimates, rtt_stub)]
#[kani::unwind(6)]
fn s1_spoof_then_genuine() {
    let mut s = fake_socket(false);
    clock::set(0);
    // some earlier traffic
    let pre: u8 = kani::any();
    kani::assume(pre <= 2);
    for i in 0..2u8 { if i < pre { s.inflight_requests.add(SocketAddrV4::new([9, 9, 9, 9].into(), 1)); } }
    let to = SocketAddrV4::new(kani::any::<u32>().into(), kani::any());
    kani::assume(!to.ip().is_unspecified());
    let tid = s.inflight_requests.add(to);
    let spoof_tid: u32 = kani::any();
    let spoof_from = SocketAddrV4::new(kani::any::<u32>().into(), kani::any());
    let r1 = s.is_expected_response(&resp(spoof_tid), &spoof_from);
    if r1 { assert!(spoof_from == to && spoof_tid == tid || spoof_tid < tid); }
    let genuine_first = spoof_tid == tid && spoof_from == to;
    let r2 = s.is_expected_response(&resp(tid), &to);
    if !genuine_first { assert!(r2); }
    let r3 = s.is_expected_response(&resp(tid), &to);
    assert!(!r3);
    std::mem::forget(s);
}

#[kani::proof]
#[kani::unwind(6)]
fn m1_fake_socket() {
    let s = fake_socket(false);
    assert!(!s.server_mode);
    std::mem::forget(s);
}

#[kani::proof]
#[kani::stub(std::time::Instant::now, clock::now)]
#[kani::unwind(6)]
fn m2_inflight_add_get() {
    let mut r = InflightRequests::new();
    let tid = r.add(SocketAddrV4::new([9, 9, 9, 9].into(), 1));
    assert!(r.get(tid).is_some());
    std::mem::forget(r);
}

#[kani::proof]
#[kani::stub(std::time::Instant::now, clock::now)]
#[kani::stub(InflightRequests::update_rtt_estimates, rtt_stub)]
#[kani::unwind(6)]
fn m3_inflight_remove() {
    let mut r = InflightRequests::new();
    let tid = r.add(SocketAddrV4::new([9, 9, 9, 9].into(), 1));
    assert!(r.remove(tid).is_some());
    std::mem::forget(r);
}

#[kani::proof]
#[kani::stub(std::time::Instant::now, clock::now)]
#[kani::unwind(6)]
fn m4_inflight_remove_nostub() {
    let mut r = InflightRequests::new();
    let tid = r.add(SocketAddrV4::new([9, 9, 9, 9].into(), 1));
    assert!(r.remove(tid).is_some());
    std::mem::forget(r);
}

#[kani::proof]
#[kani::unwind(6)]
fn m5_rtt_only() {
    let mut r = InflightRequests::new();
    r.update_rtt_estimates(Duration::from_secs(1));
    std::mem::forget(r);
}

#[kani::proof]
#[kani::unwind(6)]
fn m6_duration_debug() {
    let d = Duration::from_secs(1);
    let s = format!("{:?}", d);
    std::mem::forget(s);
}
pub(crate) fn dur_dbg_stub(_d: &Duration, _f: &mut std::fmt::Formatter<'_>) -> std::fmt::Result { Ok(()) }

#[kani::proof]
#[kani::stub(std::time::Instant::now, clock::now)]
#[kani::stub(<std::time::Duration as std::fmt::Debug>::fmt, dur_dbg_stub)]
#[kani::unwind(6)]
fn m7_inflight_remove_dbgstub() {
    let mut r = InflightRequests::new();
    let tid = r.add(SocketAddrV4::new([9, 9, 9, 9].into(), 1));
    assert!(r.remove(tid).is_some());
    std::mem::forget(r);
}

#[kani::proof]
#[kani::unwind(6)]
fn m8_trace_only() {
    let x: u32 = kani::any();
    trace!("hello {:?}", x);
}

#[kani::proof]
#[kani::stub(std::time::Instant::now, clock::now)]
#[kani::unwind(6)]
fn m9_vec_remove() {
    let mut r = InflightRequests::new();
    let _tid = r.add(SocketAddrV4::new([9, 9, 9, 9].into(), 1));
    let q = r.requests.remove(0);
    std::mem::forget(q);
    std::mem::forget(r);
}

#[kani::proof]
#[kani::stub(std::time::Instant::now, clock::now)]
#[kani::stub(InflightRequests::update_rtt_estimates, rtt_stub)]
#[kani::unwind(4)]
fn s2_one_request_spoof_then_genuine() {
    let mut s = fake_socket(false);
    clock::set(0);
    let to = SocketAddrV4::new(kani::any::<u32>().into(), kani::any());
    kani::assume(!to.ip().is_unspecified());
    let tid = s.inflight_requests.add(to);
    let spoof_tid: u32 = kani::any();
    let spoof_from = SocketAddrV4::new(kani::any::<u32>().into(), kani::any());
    let r1 = s.is_expected_response(&resp(spoof_tid), &spoof_from);
    let genuine_first = spoof_tid == tid && spoof_from == to;
    assert!(r1 == genuine_first);
    let r2 = s.is_expected_response(&resp(tid), &to);
    assert!(r2 == !genuine_first);
    let r3 = s.is_expected_response(&resp(tid), &to);
    assert!(!r3);
    std::mem::forget(s);
}

impl KrpcSocket {
    pub(crate) fn kani_add_inflight(&mut self, to: SocketAddrV4) -> u32 { self.inflight_requests.add(to) }
}

#[kani::proof]
#[kani::stub(std::time::Instant::now, clock::now)]
#[kani::stub(InflightRequests::update_rtt_estimates, rtt_stub)]
#[kani::unwind(7)]
fn s3_two_requests_spoof_then_genuine() {
    let mut s = fake_socket(false);
    clock::set(0);
    let to0 = SocketAddrV4::new([10, 0, 0, 1].into(), 1);
    let to = SocketAddrV4::new(kani::any::<u32>().into(), kani::any());
    kani::assume(!to.ip().is_unspecified());
    let tid0 = s.inflight_requests.add(to0);
    let tid = s.inflight_requests.add(to);
    let spoof_tid: u32 = kani::any();
    let spoof_from = SocketAddrV4::new(kani::any::<u32>().into(), kani::any());
    let r1 = s.is_expected_response(&resp(spoof_tid), &spoof_from);
    let hits0 = spoof_tid == tid0 && spoof_from == to0;
    let hits1 = spoof_tid == tid && spoof_from == to;
    assert!(r1 == (hits0 || hits1));
    let r2 = s.is_expected_response(&resp(tid), &to);
    assert!(r2 == !hits1);
    std::mem::forget(s);
}

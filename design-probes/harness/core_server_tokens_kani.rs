use super::*;
use crate::verif_harness::clock;

#[kani::proof]
#[kani::stub(std::time::Instant::now, clock::now)]
#[kani::unwind(25)]
fn t1_tokens_ip_distinct() {
    let mut t = Tokens { prev_secret: kani::any(), curr_secret: kani::any(), last_updated: clock::now() };
    let a = SocketAddrV4::new(kani::any::<u32>().into(), kani::any());
    let b = SocketAddrV4::new(kani::any::<u32>().into(), kani::any());
    kani::assume(a.ip() != b.ip());
    let ta = t.generate_token(a);
    let tb = t.generate_token(b);
    assert!(ta != tb);
}

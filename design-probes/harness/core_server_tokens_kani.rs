use super::*;
use crate::verif_harness::clock;

#[kani::proof]
#[kani::stub(std::time::Instant::now, clock::now)]
#[kani::unwind(25)]
fn t1_tokens_ip_distinct() {
    let mut t = Tokens { prev_secret: kani::any(), curr_secret: kani::any(), last_updated: clock::now() };
    let a = SocketAddrV4::new(kani::any::<u32>().into(), kani::any());
    let b = SocketAddrV4::new(kani::any::<u32>().into(), kani::any());
    kani::assume(a.ip() != b.ip());
    let ta = t.generate_token(a);
    let tb = t.generate_token(b);
    assert!(ta != tb);
}

fn ref_crc32c(data: &[u8]) -> u32 {
    let mut crc = 0xFFFF_FFFFu32;
    let mut i = 0;
    while i < data.len() {
        crc ^= data[i] as u32;
        let mut j = 0;
        while j < 8 {
            crc = if crc & 1 != 0 { (crc >> 1) ^ 0x82F6_3B78 } else { crc >> 1 };
            j += 1;
        }
        i += 1;
    }
    !crc
}

#[kani::proof]
#[kani::stub(std::time::Instant::now, clock::now)]
#[kani::unwind(25)]
fn t2_validate_matches_reference() {
    let mut t = Tokens { prev_secret: kani::any(), curr_secret: kani::any(), last_updated: clock::now() };
    let a = SocketAddrV4::new(kani::any::<u32>().into(), kani::any());
    let tok: [u8; 5] = kani::any();
    let len: usize = kani::any();
    kani::assume(len <= 5);
    let mut buf = [0u8; 24];
    buf[..4].copy_from_slice(&a.ip().octets());
    buf[4..].copy_from_slice(&t.curr_secret);
    let c = ref_crc32c(&buf).to_be_bytes();
    buf[4..].copy_from_slice(&t.prev_secret);
    let p = ref_crc32c(&buf).to_be_bytes();
    let got = t.validate(a, &tok[..len]);
    let expect = len == 4 && (tok[..4] == c || tok[..4] == p);
    assert!(got == expect);
    kani::cover!(got);
    kani::cover!(!got && len == 4);
}

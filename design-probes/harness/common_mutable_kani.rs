use super::*;

static mut VERDICT: bool = false;
static mut ASKED: bool = false;

fn verify_stub(_k: &VerifyingKey, _msg: &[u8], _sig: &Signature) -> Result<(), ed25519_dalek::SignatureError> {
    unsafe { ASKED = true; }
    if unsafe { VERDICT } { Ok(()) } else { Err(ed25519_dalek::SignatureError::new()) }
}

// compressed Ed25519 base point: a valid public key encoding
const K0: [u8; 32] = [
    0x58, 0x66, 0x66, 0x66, 0x66, 0x66, 0x66, 0x66, 0x66, 0x66, 0x66, 0x66, 0x66, 0x66, 0x66, 0x66,
    0x66, 0x66, 0x66, 0x66, 0x66, 0x66, 0x66, 0x66, 0x66, 0x66, 0x66, 0x66, 0x66, 0x66, 0x66, 0x66,
];

#[kani::proof]
#[kani::stub(<ed25519_dalek::VerifyingKey as ed25519_dalek::Verifier<ed25519_dalek::Signature>>::verify, verify_stub)]
#[kani::unwind(130)]
fn u1_from_dht_message_target() {
    unsafe { VERDICT = kani::any(); }
    let target: [u8; 20] = kani::any();
    let sig: [u8; 64] = kani::any();
    let seq: i64 = kani::any();
    let v: Box<[u8]> = Box::new([kani::any()]);
    let r = MutableItem::from_dht_message(Id::from(target), &K0, v, seq, &sig, None);
    if let Ok(item) = &r {
        assert!(unsafe { ASKED && VERDICT });
        assert!(*item.key() == K0);
        assert!(item.seq() == seq);
        let expected = MutableItem::target_from_key(&K0, None);
        assert!(*item.target() == expected);
    }
    kani::cover!(r.is_ok());
    std::mem::forget(r);
}

impl MutableItem {
    pub(crate) fn kani_set_target(&mut self, t: Id) { self.target = t; }
}

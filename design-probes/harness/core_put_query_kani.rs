use super::*;
use crate::verif_harness::clock;
use crate::actor::socket::kani_h::{fake_socket, send_stub, srt_stub};
use crate::common::AnnouncePeerRequestArguments;
use std::net::SocketAddrV4;

fn id_stub() -> Id { Id::from([9u8; 20]) }

#[kani::proof]
#[kani::stub(std::time::Instant::now, clock::now)]
#[kani::stub(crate::actor::socket::KrpcSocket::send, send_stub)]
#[kani::stub(std::net::UdpSocket::set_read_timeout, srt_stub)]
#[kani::stub(crate::common::id::Id::random, id_stub)]
#[kani::unwind(6)]
fn q1_put_counts() {
    let mut s = fake_socket(false);
    clock::set(0);
    let req = PutRequestSpecific::AnnouncePeer(AnnouncePeerRequestArguments { info_hash: Id::from([1u8; 20]), port: 1, implied_port: None });
    let mut q = PutQuery::new(req, None);
    let n: usize = kani::any();
    kani::assume(n >= 1 && n <= 3);
    let nodes = [
        Node::new_with_token(Id::from([2u8; 20]), SocketAddrV4::new([10, 0, 0, 1].into(), 1), Box::new([1, 2, 3, 4])),
        Node::new_with_token(Id::from([3u8; 20]), SocketAddrV4::new([10, 0, 0, 2].into(), 1), Box::new([1, 2, 3, 4])),
        Node::new_with_token(Id::from([4u8; 20]), SocketAddrV4::new([10, 0, 0, 3].into(), 1), Box::new([1, 2, 3, 4])),
    ];
    let r = q.start(&mut s, &nodes[..n]);
    assert!(r.is_ok());
    assert!(q.started());
    let mut acks = 0u32;
    for i in 0..3usize {
        if i < n {
            let kind: u8 = kani::any();
            if kind == 0 { q.success(); acks += 1; }
            else if kind == 1 {
                let code: i32 = kani::any();
                q.error(ErrorSpecific { code, description: String::new() });
            }
        }
    }
    clock::set(100);
    let res = q.check(&s);
    match res {
        Ok(done) => { assert!(done); assert!(acks >= 1); }
        Err(PutError::Concurrency(_)) => { assert!(false, "concurrency error for announce_peer"); }
        Err(PutError::Query(_)) => { assert!(acks == 0); }
    }
    std::mem::forget(q); std::mem::forget(s); std::mem::forget(nodes);
}

#[kani::proof]
#[kani::stub(std::time::Instant::now, clock::now)]
#[kani::stub(crate::actor::socket::KrpcSocket::send, send_stub)]
#[kani::stub(std::net::UdpSocket::set_read_timeout, srt_stub)]
#[kani::stub(crate::common::id::Id::random, id_stub)]
#[kani::unwind(4)]
fn q2_put_counts_n2() {
    let mut s = fake_socket(false);
    clock::set(0);
    let req = PutRequestSpecific::AnnouncePeer(AnnouncePeerRequestArguments { info_hash: Id::from([1u8; 20]), port: 1, implied_port: None });
    let mut q = PutQuery::new(req, None);
    let nodes = [
        Node::new_with_token(Id::from([2u8; 20]), SocketAddrV4::new([10, 0, 0, 1].into(), 1), Box::new([1, 2, 3, 4])),
        Node::new_with_token(Id::from([3u8; 20]), SocketAddrV4::new([10, 0, 0, 2].into(), 1), Box::new([1, 2, 3, 4])),
    ];
    let r = q.start(&mut s, &nodes);
    assert!(r.is_ok());
    let mut acks = 0u32;
    for _ in 0..2usize {
        let kind: u8 = kani::any();
        if kind == 0 { q.success(); acks += 1; }
        else if kind == 1 {
            let code: i32 = kani::any();
            q.error(ErrorSpecific { code, description: String::new() });
        }
    }
    clock::set(100);
    let res = q.check(&s);
    match res {
        Ok(done) => { assert!(done); assert!(acks >= 1); }
        Err(PutError::Concurrency(_)) => { assert!(false, "concurrency error for announce_peer"); }
        Err(PutError::Query(_)) => { assert!(acks == 0); }
    }
    std::mem::forget(q); std::mem::forget(s); std::mem::forget(nodes);
}

#[kani::proof]
#[kani::stub(std::time::Instant::now, clock::now)]
#[kani::unwind(7)]
fn q3_put_counts_direct() {
    let mut s = fake_socket(false);
    clock::set(0);
    let t0 = s.kani_add_inflight(SocketAddrV4::new([10, 0, 0, 1].into(), 1));
    let t1 = s.kani_add_inflight(SocketAddrV4::new([10, 0, 0, 2].into(), 1));
    let req = PutRequestSpecific::AnnouncePeer(AnnouncePeerRequestArguments { info_hash: Id::from([1u8; 20]), port: 1, implied_port: None });
    let mut q = PutQuery::new(req, None);
    q.inflight_requests.push(t0);
    q.inflight_requests.push(t1);
    let mut acks = 0u32;
    for _ in 0..2usize {
        let kind: u8 = kani::any();
        if kind == 0 { q.success(); acks += 1; }
        else if kind == 1 {
            let code: i32 = kani::any();
            q.error(ErrorSpecific { code, description: String::new() });
        }
    }
    clock::set(100);
    let res = q.check(&s);
    match res {
        Ok(done) => { assert!(done); assert!(acks >= 1); }
        Err(PutError::Concurrency(_)) => { assert!(false, "concurrency error for announce_peer"); }
        Err(PutError::Query(_)) => { assert!(acks == 0); }
    }
    std::mem::forget(q); std::mem::forget(s);
}

#[kani::proof]
#[kani::stub(std::time::Instant::now, clock::now)]
#[kani::stub(crate::actor::socket::KrpcSocket::send, send_stub)]
#[kani::stub(std::net::UdpSocket::set_read_timeout, srt_stub)]
#[kani::stub(crate::common::id::Id::random, id_stub)]
#[kani::unwind(5)]
fn q4_start_contract() {
    let mut s = fake_socket(false);
    clock::set(0);
    let req = PutRequestSpecific::AnnouncePeer(AnnouncePeerRequestArguments { info_hash: Id::from([1u8; 20]), port: 1, implied_port: None });
    let mut q = PutQuery::new(req, None);
    let t0: bool = kani::any();
    let t1: bool = kani::any();
    let a0 = SocketAddrV4::new([10, 0, 0, 1].into(), 1);
    let a1 = SocketAddrV4::new([10, 0, 0, 2].into(), 1);
    let n0 = if t0 { Node::new_with_token(Id::from([2u8; 20]), a0, Box::new([1, 2, 3, 4])) } else { Node::new(Id::from([2u8; 20]), a0) };
    let n1 = if t1 { Node::new_with_token(Id::from([3u8; 20]), a1, Box::new([5, 6, 7, 8])) } else { Node::new(Id::from([3u8; 20]), a1) };
    let nodes = [n0, n1];
    let r = q.start(&mut s, &nodes);
    assert!(r.is_ok());
    assert!(q.inflight_requests.len() == (t0 as usize) + (t1 as usize));
    // the no-hang contract: Ok(()) implies something is in flight
    assert!(q.started());
    std::mem::forget(q); std::mem::forget(s); std::mem::forget(nodes);
}

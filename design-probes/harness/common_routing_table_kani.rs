use super::*;
use crate::verif_harness::clock;
use std::net::SocketAddrV4;

fn node(b1: u8, ip_last: u8) -> Node {
    let mut a = [0u8; 20];
    a[0] = 0x80;
    a[1] = b1;
    Node::new(Id::from(a), SocketAddrV4::new([10, 0, 0, ip_last].into(), 6881))
}

fn check_inv(rt: &RoutingTable) {
    let mut it = rt.nodes();
    let mut seen: [Option<Node>; 3] = [None, None, None];
    let mut n = 0usize;
    for i in 0..3usize {
        if let Some(x) = it.next() { seen[i] = Some(x); n += 1; }
    }
    assert!(it.next().is_none());
    assert!(rt.size() == n);
    assert!(rt.is_empty() == (n == 0));
    for i in 0..3usize { for j in 0..3usize { if i < j {
        if let (Some(a), Some(b)) = (&seen[i], &seen[j]) {
            assert!(a.id() != b.id());
            assert!(!(a.same_ip(b) && a.id().first_21_bits() == b.id().first_21_bits()));
        }
    } } }
    std::mem::forget(seen);
}

#[kani::proof]
#[kani::stub(std::time::Instant::now, clock::now)]
#[kani::unwind(21)]
fn r1_rt_add_one_step() {
    clock::set(0);
    let mut rt = RoutingTable::new(Id::from([0u8; 20]));
    rt.add(node(kani::any(), kani::any()));
    rt.add(node(kani::any(), kani::any()));
    check_inv(&rt);
    let r = rt.add(node(kani::any(), kani::any()));
    check_inv(&rt);
    kani::cover!(r && rt.size() == 3);
    kani::cover!(!r);
    std::mem::forget(rt);
}

#[kani::proof]
#[kani::stub(std::time::Instant::now, clock::now)]
#[kani::unwind(21)]
fn e1_kbucket_one_step() {
    clock::set(0);
    let n1 = node(kani::any(), kani::any());
    let n2 = node(kani::any(), kani::any());
    kani::assume(n1.id() != n2.id());
    let mut b = KBucket { nodes: vec![n1, n2] };
    let inc = node(kani::any(), kani::any());
    let r = b.add(inc);
    let s = b.nodes.as_slice();
    assert!(s.len() == 2 || s.len() == 3);
    for i in 0..3usize { for j in 0..3usize {
        if i < j && j < s.len() { assert!(s[i].id() != s[j].id()); }
    } }
    kani::cover!(r && s.len() == 3);
    kani::cover!(r && s.len() == 2);
    std::mem::forget(b);
}

fn direct_table(n1: Node, n2: Node) -> RoutingTable {
    let mut rt = RoutingTable::new(Id::from([0u8; 20]));
    rt.buckets.insert(160, KBucket { nodes: vec![n1, n2] });
    rt
}

#[kani::proof]
#[kani::stub(std::time::Instant::now, clock::now)]
#[kani::unwind(21)]
fn r2_rt_add_direct() {
    clock::set(0);
    let n1 = node(kani::any(), kani::any());
    let n2 = node(kani::any(), kani::any());
    // Inv on the pre-state
    kani::assume(n1.id() != n2.id());
    kani::assume(!(n1.same_ip(&n2) && n1.id().first_21_bits() == n2.id().first_21_bits()));
    let mut rt = direct_table(n1, n2);
    let inc = node(kani::any(), kani::any());
    let r = rt.add(inc);
    let s = rt.buckets.get(&160).unwrap().nodes.as_slice();
    assert!(rt.buckets.len() == 1);
    assert!(s.len() == 2 || s.len() == 3);
    assert!(rt.size() == s.len());
    for i in 0..3usize { for j in 0..3usize {
        if i < j && j < s.len() {
            assert!(s[i].id() != s[j].id());
            assert!(!(s[i].same_ip(&s[j]) && s[i].id().first_21_bits() == s[j].id().first_21_bits()));
        }
    } }
    kani::cover!(r && s.len() == 3);
    kani::cover!(!r);
    std::mem::forget(rt);
}

#[kani::proof]
#[kani::stub(std::time::Instant::now, clock::now)]
#[kani::unwind(22)]
fn e2_full_bucket_stale_head_only() {
    // 20 concrete-id nodes created at symbolic (non-decreasing) instants, then "now"
    let mut nodes = Vec::with_capacity(20);
    let mut t: u64 = 0;
    let mut ages = [0u64; 20];
    for i in 0..20u8 {
        let dt: u64 = kani::any();
        kani::assume(dt <= 2000);
        t += dt;
        clock::set(t);
        ages[i as usize] = t;
        let mut a = [0u8; 20];
        a[0] = 0x80; a[1] = i + 1;
        nodes.push(Node::new(Id::from(a), SocketAddrV4::new([10, 0, 1, i].into(), 6881)));
    }
    let dt: u64 = kani::any();
    kani::assume(dt <= 2000);
    let now = t + dt;
    clock::set(now);
    let mut b = KBucket { nodes };
    let mut inc = [0u8; 20];
    inc[0] = 0x80; inc[1] = 99;
    let r = b.add(Node::new(Id::from(inc), SocketAddrV4::new([10, 0, 2, 1].into(), 6881)));
    let head_age = now - ages[0];
    assert!(b.nodes.len() == 20);
    assert!(r == (head_age > 900));
    if !r {
        // unchanged: first id still the old head
        assert!(b.nodes[0].id().as_bytes()[1] == 1);
    } else {
        assert!(b.nodes[0].id().as_bytes()[1] == 2);
        assert!(b.nodes[19].id().as_bytes()[1] == 99);
    }
    kani::cover!(r);
    kani::cover!(!r);
    std::mem::forget(b);
}

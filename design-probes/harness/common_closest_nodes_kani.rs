use super::*;
use crate::verif_harness::{clock, any_node};

#[kani::proof]
#[kani::stub(std::time::Instant::now, clock::now)]
#[kani::unwind(21)]
fn c1_closest_singleton_add() {
    let target: [u8; 20] = kani::any();
    let t = Id::from(target);
    let first = any_node();
    let second = any_node();
    let mut c = ClosestNodes { target: t, nodes: vec![first] };
    c.add(second);
    let ns = c.nodes();
    if ns.len() == 2 {
        let (p, q) = (&ns[0], &ns[1]);
        let (sp, sq) = (p.is_secure(), q.is_secure());
        assert!(sp || !sq);
        if sp == sq { assert!(p.id().xor(&t) <= q.id().xor(&t)); }
    }
    kani::cover!(ns.len() == 2);
    std::mem::forget(c);
}

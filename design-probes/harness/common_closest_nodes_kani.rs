use super::*;
use crate::verif_harness::{clock, any_node};

#[kani::proof]
#[kani::stub(std::time::Instant::now, clock::now)]
#[kani::unwind(21)]
fn c1_closest_singleton_add() {
    let target: [u8; 20] = kani::any();
    let t = Id::from(target);
    let first = any_node();
    let second = any_node();
    let mut c = ClosestNodes { target: t, nodes: vec![first] };
    c.add(second);
    let ns = c.nodes();
    if ns.len() == 2 {
        let (p, q) = (&ns[0], &ns[1]);
        let (sp, sq) = (p.is_secure(), q.is_secure());
        assert!(sp || !sq);
        if sp == sq { assert!(p.id().xor(&t) <= q.id().xor(&t)); }
    }
    kani::cover!(ns.len() == 2);
    std::mem::forget(c);
}

#[kani::proof]
#[kani::stub(std::time::Instant::now, clock::now)]
#[kani::unwind(24)]
fn c4_take_until_secure_prefix() {
    let t = Id::from([0u8; 20]);
    let mut nodes = Vec::with_capacity(22);
    for i in 0..22u8 {
        let mut a = [0u8; 20];
        a[0] = i + 1;
        nodes.push(Node::new(Id::from(a), std::net::SocketAddrV4::new([10, i, 0, 1].into(), 6881)));
    }
    let c = ClosestNodes { target: t, nodes };
    let est: usize = kani::any();
    let subnets: usize = kani::any();
    let out = c.take_until_secure(est, subnets);
    assert!(out.len() >= 20 && out.len() <= 22);
    assert!(out.as_ptr() == c.nodes.as_ptr());
    kani::cover!(out.len() == 22);
    kani::cover!(out.len() == 20);
    std::mem::forget(c);
}

use super::*;

static mut SEQS: [i64; 2] = [0; 2];
static mut VALS: [u8; 2] = [0; 2];
static mut N: usize = 0;

fn send_stub(_d: &Dht, message: ActorMessage) {
    if let ActorMessage::Get(_, ResponseSender::Mutable(tx)) = message {
        let n = unsafe { N };
        for i in 0..2usize {
            let (seq, val) = unsafe { (SEQS[i], VALS[i]) };
            let item = MutableItem::new_signed_unchecked([0; 32], [0; 64], &[val], seq, None);
            let _ = tx.send(item);
        }
        drop(tx);
    }
}

fn tfk_stub(_k: &[u8; 32], _s: Option<&[u8]>) -> crate::Id { crate::Id::from([3u8; 20]) }

#[kani::proof]
#[kani::stub(crate::dht::Dht::send, send_stub)]
#[kani::stub(crate::common::mutable::MutableItem::target_from_key, tfk_stub)]
#[kani::unwind(9)]
fn c16_most_recent_sync() {
    let n: usize = 2;
    unsafe { N = n; SEQS = [kani::any(), kani::any()]; VALS = [kani::any(), kani::any()]; }
    let (tx, rx) = flume::unbounded::<ActorMessage>();
    let dht = Dht(tx);
    let r = dht.get_mutable_most_recent(&[0; 32], None);
    if n == 0 { assert!(r.is_none()); }
    else {
        let r = r.unwrap();
        let (s0, s1) = unsafe { (SEQS[0], SEQS[1]) };
        let max = if n == 2 && s1 > s0 { s1 } else { s0 };
        assert!(r.seq() == max);
        std::mem::forget(r);
    }
    std::mem::forget(dht); std::mem::forget(rx);
}

use super::*;

fn ref_crc32c(data: &[u8; 4]) -> u32 {
    let mut crc = 0xFFFF_FFFFu32;
    for b in data {
        crc ^= *b as u32;
        for _ in 0..8 {
            crc = if crc & 1 != 0 { (crc >> 1) ^ 0x82F6_3B78 } else { crc >> 1 };
        }
    }
    !crc
}

#[kani::proof]
#[kani::unwind(21)]
fn b1_bep42_valid_matches_reference() {
    let ipn: u32 = kani::any();
    let ip = Ipv4Addr::from(ipn);
    let idb: [u8; 20] = kani::any();
    let id = Id::from(idb);
    let exempt = ip.is_private() || ip.is_link_local() || ip.is_loopback();
    let r = idb[19] as u32;
    let masked = (ipn & 0x030f3fff) | (r << 29);
    let c = ref_crc32c(&masked.to_be_bytes()).to_be_bytes();
    let expect = exempt || (idb[0] == c[0] && idb[1] == c[1] && (idb[2] & 0xf8) == (c[2] & 0xf8));
    assert!(id.is_valid_for_ip(ip) == expect);
    kani::cover!(!exempt && id.is_valid_for_ip(ip));
}

#[kani::proof]
#[kani::unwind(21)]
fn b2_from_ipv4_and_r_valid() {
    let ipn: u32 = kani::any();
    let ip = Ipv4Addr::from(ipn);
    let bytes: [u8; 20] = kani::any();
    let r: u8 = kani::any();
    let id = from_ipv4_and_r(bytes, ip, r);
    assert!(id.is_valid_for_ip(ip));
    assert!(id.as_bytes()[19] == r);
    for i in 3..19usize { assert!(id.as_bytes()[i] == bytes[i]); }
}

#[kani::proof]
#[kani::unwind(42)]
fn g2_from_str_ascii40() {
    let b: [u8; 40] = kani::any();
    for i in 0..40usize { kani::assume(b[i] < 0x80); }
    let s = unsafe { std::str::from_utf8_unchecked(&b) };
    let r = <Id as FromStr>::from_str(s);
    let mut all_hex = true;
    for i in 0..40usize { if !b[i].is_ascii_hexdigit() { all_hex = false; } }
    assert!(r.is_ok() == all_hex);
    std::mem::forget(r);
}

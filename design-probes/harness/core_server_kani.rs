use super::*;
use crate::verif_harness::{clock, rs};

fn small_settings() -> ServerSettings {
    ServerSettings { max_info_hashes: 1, max_peers_per_info_hash: 1, max_immutable_values: 1, max_mutable_values: 1, ..Default::default() }
}

fn verify_stub(_k: &ed25519_dalek::VerifyingKey, _msg: &[u8], _sig: &ed25519_dalek::Signature) -> Result<(), ed25519_dalek::SignatureError> {
    if kani::any() { Ok(()) } else { Err(ed25519_dalek::SignatureError::new()) }
}

static mut CUT_REACHED: bool = false;
fn mut_stub(_t: Id, _k: &[u8], _v: Box<[u8]>, _seq: i64, _sig: &[u8], _salt: Option<Box<[u8]>>) -> Result<MutableItem, crate::common::MutableError> {
    unsafe { CUT_REACHED = true; }
    Err(crate::common::MutableError::InvalidMutableSignature)
}
fn sa_stub(_i: &Id, _k: &[u8], _t: u64, _s: &[u8]) -> Result<SignedAnnounce, crate::common::SignedAnnounceError> {
    unsafe { CUT_REACHED = true; }
    Err(crate::common::SignedAnnounceError::Signature)
}

#[kani::proof]
#[kani::stub(crate::common::mutable::MutableItem::from_dht_message, mut_stub)]
#[kani::stub(crate::common::signed_announce::SignedAnnounce::from_dht_request, sa_stub)]
#[kani::stub(<ed25519_dalek::VerifyingKey as ed25519_dalek::Verifier<ed25519_dalek::Signature>>::verify, verify_stub)]
#[kani::stub(std::time::Instant::now, clock::now)]
#[kani::stub(getrandom::fill, rs::fill)]
#[kani::stub(std::hash::RandomState::new, rs::new_random_state)]
#[kani::unwind(25)]
fn v1_server_put_immutable_token() {
    clock::set(0);
    let mut server = Server::new(small_settings());
    let rt = RoutingTable::new(Id::from([1u8; 20]));
    let from = SocketAddrV4::new(kani::any::<u32>().into(), 6881);
    let good = server.tokens.generate_token(from);
    let token: [u8; 4] = kani::any();
    let v: Box<[u8]> = Box::new([7u8]);
    let target: Id = crate::common::hash_immutable(&v).into();
    let req = RequestSpecific {
        requester_id: Id::from([2u8; 20]),
        request_type: RequestTypeSpecific::Put(PutRequest {
            token: Box::new(token),
            put_request_type: PutRequestSpecific::PutImmutable(PutImmutableRequestArguments { target, v }),
        }),
    };
    let reply = server.handle_request(&rt, &rt, from, req);
    let stored = server.immutable_values.peek(&target).is_some();
    if stored { assert!(token == good); }
    match reply {
        Some(MessageType::Error(e)) => { assert!(e.code == 203); assert!(!stored); }
        Some(MessageType::Response(_)) => { assert!(stored); }
        _ => { assert!(false); }
    }
    assert!(unsafe { !CUT_REACHED });
    kani::cover!(stored);
    kani::cover!(!stored);
    std::mem::forget(server); std::mem::forget(rt);
}

// ---- C04 prototype: contract stub for from_dht_message (its contract is the leaf obligation C02.O1)
static mut ORACLE_VALID: bool = false;
fn fdm_contract(target: Id, key: &[u8], v: Box<[u8]>, seq: i64, signature: &[u8], salt: Option<Box<[u8]>>) -> Result<MutableItem, crate::common::MutableError> {
    if key.len() != 32 || signature.len() != 64 { return Err(crate::common::MutableError::InvalidMutablePublicKey); }
    if !unsafe { ORACLE_VALID } { return Err(crate::common::MutableError::InvalidMutableSignature); }
    let mut k = [0u8; 32]; k.copy_from_slice(key);
    let mut s = [0u8; 64]; s.copy_from_slice(signature);
    let mut item = MutableItem::new_signed_unchecked(k, s, &v, seq, salt.as_deref());
    item.kani_set_target(target);
    Ok(item)
}
fn tfk_stub(_k: &[u8; 32], _s: Option<&[u8]>) -> Id { Id::from([3u8; 20]) }

#[kani::proof]
#[kani::stub(crate::common::mutable::MutableItem::from_dht_message, fdm_contract)]
#[kani::stub(crate::common::mutable::MutableItem::target_from_key, tfk_stub)]
#[kani::stub(crate::common::signed_announce::SignedAnnounce::from_dht_request, sa_stub)]
#[kani::stub(std::time::Instant::now, clock::now)]
#[kani::stub(getrandom::fill, rs::fill)]
#[kani::unwind(66)]
fn v2_server_mutable_seq_cas() {
    clock::set(0);
    let mut server = Server::new(small_settings());
    let rt = RoutingTable::new(Id::from([1u8; 20]));
    let from = SocketAddrV4::new([10, 0, 0, 7].into(), 6881);
    let token = server.tokens.generate_token(from);
    let target = Id::from([3u8; 20]);
    // pre-state: nothing, or an item with symbolic seq0
    let has_prev: bool = kani::any();
    let seq0: i64 = kani::any();
    let val0: u8 = kani::any();
    if has_prev {
        let prev = MutableItem::new_signed_unchecked([1; 32], [2; 64], &[val0], seq0, None);
        server.mutable_values.put(target, prev);
    }
    let seq: i64 = kani::any();
    let cas: Option<i64> = kani::any();
    let val: u8 = kani::any();
    unsafe { ORACLE_VALID = kani::any(); }
    let valid = unsafe { ORACLE_VALID };
    let req = RequestSpecific {
        requester_id: Id::from([2u8; 20]),
        request_type: RequestTypeSpecific::Put(PutRequest {
            token: Box::new(token),
            put_request_type: PutRequestSpecific::PutMutable(PutMutableRequestArguments {
                target, v: Box::new([val]), k: [1; 32], seq, sig: [2; 64], salt: None, cas,
            }),
        }),
    };
    let reply = server.handle_request(&rt, &rt, from, req);
    let now = server.mutable_values.peek(&target);
    // O1: never decreases
    if has_prev { assert!(now.is_some()); assert!(now.unwrap().seq() >= seq0); }
    let code = match &reply { Some(MessageType::Error(e)) => Some(e.code), _ => None };
    let cas_bad = has_prev && cas.is_some() && cas != Some(seq0);
    if cas_bad { assert!(code == Some(301)); }
    else if has_prev && seq < seq0 { assert!(code == Some(302)); }
    else if !valid { assert!(code == Some(206)); }
    else { assert!(code.is_none()); assert!(now.unwrap().seq() == seq && now.unwrap().value() == &[val]); }
    if code.is_some() {
        if has_prev { assert!(now.unwrap().seq() == seq0 && now.unwrap().value() == &[val0]); }
        else { assert!(now.is_none()); }
    }
    assert!(unsafe { !CUT_REACHED });
    kani::cover!(code == Some(301));
    kani::cover!(code == Some(302));
    kani::cover!(code == Some(206));
    kani::cover!(code.is_none() && has_prev);
    std::mem::forget(reply); std::mem::forget(server); std::mem::forget(rt);
}

fn vi_cut(_v: &[u8], _t: Id) -> bool { unsafe { CUT_REACHED = true; } false }
fn closest_cut(_rt: &RoutingTable, _t: Id) -> Box<[crate::common::Node]> { unsafe { CUT_REACHED = true; } Box::new([]) }

#[kani::proof]
#[kani::stub(crate::common::mutable::MutableItem::from_dht_message, fdm_contract)]
#[kani::stub(crate::common::mutable::MutableItem::target_from_key, tfk_stub)]
#[kani::stub(crate::common::signed_announce::SignedAnnounce::from_dht_request, sa_stub)]
#[kani::stub(crate::common::immutable::validate_immutable, vi_cut)]
#[kani::stub(crate::common::routing_table::RoutingTable::closest, closest_cut)]
#[kani::stub(std::time::Instant::now, clock::now)]
#[kani::stub(getrandom::fill, rs::fill)]
#[kani::unwind(26)]
fn v3_server_mutable_seq_cas_cuts() {
    clock::set(0);
    let mut server = Server::new(small_settings());
    let rt = RoutingTable::new(Id::from([1u8; 20]));
    let from = SocketAddrV4::new([10, 0, 0, 7].into(), 6881);
    let token = server.tokens.generate_token(from);
    let target = Id::from([3u8; 20]);
    let has_prev: bool = kani::any();
    let seq0: i64 = kani::any();
    let val0: u8 = kani::any();
    if has_prev {
        let prev = MutableItem::new_signed_unchecked([1; 32], [2; 64], &[val0], seq0, None);
        server.mutable_values.put(target, prev);
    }
    let seq: i64 = kani::any();
    let cas: Option<i64> = kani::any();
    let val: u8 = kani::any();
    unsafe { ORACLE_VALID = kani::any(); }
    let valid = unsafe { ORACLE_VALID };
    let req = RequestSpecific {
        requester_id: Id::from([2u8; 20]),
        request_type: RequestTypeSpecific::Put(PutRequest {
            token: Box::new(token),
            put_request_type: PutRequestSpecific::PutMutable(PutMutableRequestArguments {
                target, v: Box::new([val]), k: [1; 32], seq, sig: [2; 64], salt: None, cas,
            }),
        }),
    };
    let reply = server.handle_request(&rt, &rt, from, req);
    let now = server.mutable_values.peek(&target);
    if has_prev { assert!(now.is_some()); assert!(now.unwrap().seq() >= seq0); }
    let code = match &reply { Some(MessageType::Error(e)) => Some(e.code), _ => None };
    let cas_bad = has_prev && cas.is_some() && cas != Some(seq0);
    if cas_bad { assert!(code == Some(301)); }
    else if has_prev && seq < seq0 { assert!(code == Some(302)); }
    else if !valid { assert!(code == Some(206)); }
    else { assert!(code.is_none()); assert!(now.unwrap().seq() == seq); }
    if code.is_some() {
        if has_prev { assert!(now.unwrap().seq() == seq0); }
        else { assert!(now.is_none()); }
    }
    assert!(unsafe { !CUT_REACHED });
    kani::cover!(code == Some(301));
    kani::cover!(code == Some(302));
    kani::cover!(code == Some(206));
    kani::cover!(code.is_none() && has_prev);
    std::mem::forget(reply); std::mem::forget(server); std::mem::forget(rt);
}

#!/bin/bash
# usage: run.sh <harness> [timeout_s] [extra kani args...]
# copies the probe tree to its own dir (own target) and runs one harness
h=$1; t=${2:-600}; tag=$3; shift; shift; shift
d=/var/tmp/probe/run-$h$tag
mkdir -p $d
rsync -a --exclude target /var/tmp/probe/dht/ $d/
cd $d
start=$(date +%s)
CARGO_NET_OFFLINE=true timeout $t cargo kani -Z stubbing -Z unstable-options --harness $h "$@" > /var/tmp/probe/logs/$h$tag.log 2>&1
rc=$?
end=$(date +%s)
echo "HARNESS $h$tag rc=$rc wall=$((end-start))s" >> /var/tmp/probe/logs/$h$tag.log
echo "HARNESS $h$tag rc=$rc wall=$((end-start))s $(grep -E 'VERIFICATION:|Verification Time|of .* failed|cover properties' /var/tmp/probe/logs/$h$tag.log | tr '\n' ' ')" >> /var/tmp/probe/logs/SUMMARY
rm -rf $d/target

//! No-op stand-in for the `tracing` facade: every logging macro swallows its tokens.
#[macro_export]
macro_rules! trace { ($($t:tt)*) => {{}}; }
#[macro_export]
macro_rules! debug { ($($t:tt)*) => {{}}; }
#[macro_export]
macro_rules! info { ($($t:tt)*) => {{}}; }
#[macro_export]
macro_rules! warn { ($($t:tt)*) => {{}}; }
#[macro_export]
macro_rules! error { ($($t:tt)*) => {{}}; }

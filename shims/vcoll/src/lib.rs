//! Vec-backed stand-ins for std::collections::{HashMap, HashSet} (API subset used by `dht`).
use std::borrow::Borrow;

#[derive(Clone)]
pub struct HashMap<K, V> {
    entries: Vec<(K, V)>,
}

impl<K, V> std::fmt::Debug for HashMap<K, V> {
    fn fmt(&self, f: &mut std::fmt::Formatter<'_>) -> std::fmt::Result {
        f.debug_struct("HashMap").field("len", &self.entries.len()).finish()
    }
}

impl<K, V> Default for HashMap<K, V> {
    fn default() -> Self { Self { entries: Vec::new() } }
}

impl<K: Eq, V> HashMap<K, V> {
    pub fn new() -> Self { Self { entries: Vec::new() } }
    pub fn len(&self) -> usize { self.entries.len() }
    pub fn is_empty(&self) -> bool { self.entries.is_empty() }
    fn position<Q>(&self, k: &Q) -> Option<usize>
    where K: Borrow<Q>, Q: Eq + ?Sized {
        let mut i = 0;
        while i < self.entries.len() {
            if self.entries[i].0.borrow() == k { return Some(i); }
            i += 1;
        }
        None
    }
    pub fn get<Q>(&self, k: &Q) -> Option<&V> where K: Borrow<Q>, Q: Eq + ?Sized {
        let i = self.position(k)?;
        Some(&self.entries[i].1)
    }
    pub fn get_mut<Q>(&mut self, k: &Q) -> Option<&mut V> where K: Borrow<Q>, Q: Eq + ?Sized {
        let i = self.position(k)?;
        Some(&mut self.entries[i].1)
    }
    pub fn contains_key<Q>(&self, k: &Q) -> bool where K: Borrow<Q>, Q: Eq + ?Sized {
        self.position(k).is_some()
    }
    pub fn insert(&mut self, k: K, v: V) -> Option<V> {
        if let Some(i) = self.position(&k) {
            let old = std::mem::replace(&mut self.entries[i].1, v);
            return Some(old);
        }
        self.entries.push((k, v));
        None
    }
    pub fn remove<Q>(&mut self, k: &Q) -> Option<V> where K: Borrow<Q>, Q: Eq + ?Sized {
        let i = self.position(k)?;
        Some(self.entries.swap_remove(i).1)
    }
    pub fn iter(&self) -> impl Iterator<Item = (&K, &V)> { self.entries.iter().map(|(k, v)| (k, v)) }
    pub fn iter_mut(&mut self) -> impl Iterator<Item = (&K, &mut V)> { self.entries.iter_mut().map(|(k, v)| (&*k, v)) }
    pub fn values(&self) -> impl Iterator<Item = &V> { self.entries.iter().map(|(_, v)| v) }
    pub fn values_mut(&mut self) -> impl Iterator<Item = &mut V> { self.entries.iter_mut().map(|(_, v)| v) }
    pub fn entry(&mut self, k: K) -> Entry<'_, K, V> { Entry { map: self, key: k } }
}

pub struct Entry<'a, K, V> {
    map: &'a mut HashMap<K, V>,
    key: K,
}

impl<'a, K: Eq, V> Entry<'a, K, V> {
    pub fn and_modify<F: FnOnce(&mut V)>(self, f: F) -> Self {
        if let Some(i) = self.map.position(&self.key) { f(&mut self.map.entries[i].1); }
        self
    }
    pub fn or_insert(self, default: V) -> &'a mut V {
        let i = match self.map.position(&self.key) {
            Some(i) => i,
            None => { self.map.entries.push((self.key, default)); self.map.entries.len() - 1 }
        };
        &mut self.map.entries[i].1
    }
}

#[derive(Clone)]
pub struct HashSet<T> {
    entries: Vec<T>,
}

impl<T> std::fmt::Debug for HashSet<T> {
    fn fmt(&self, f: &mut std::fmt::Formatter<'_>) -> std::fmt::Result {
        f.debug_struct("HashSet").field("len", &self.entries.len()).finish()
    }
}

impl<T: Eq> HashSet<T> {
    pub fn new() -> Self { Self { entries: Vec::new() } }
    pub fn len(&self) -> usize { self.entries.len() }
    pub fn is_empty(&self) -> bool { self.entries.is_empty() }
    pub fn contains<Q>(&self, v: &Q) -> bool where T: Borrow<Q>, Q: Eq + ?Sized {
        let mut i = 0;
        while i < self.entries.len() {
            if self.entries[i].borrow() == v { return true; }
            i += 1;
        }
        false
    }
    pub fn insert(&mut self, v: T) -> bool {
        if self.contains(&v) { return false; }
        self.entries.push(v);
        true
    }
    pub fn iter(&self) -> std::slice::Iter<'_, T> { self.entries.iter() }
}

/// Sorted-Vec stand-in for std::collections::BTreeMap (API subset used by `dht`).
#[derive(Clone)]
pub struct BTreeMap<K, V> {
    entries: Vec<(K, V)>,
}
impl<K, V> std::fmt::Debug for BTreeMap<K, V> {
    fn fmt(&self, f: &mut std::fmt::Formatter<'_>) -> std::fmt::Result {
        f.debug_struct("BTreeMap").field("len", &self.entries.len()).finish()
    }
}
impl<K, V> Default for BTreeMap<K, V> {
    fn default() -> Self { Self { entries: Vec::new() } }
}
impl<K: Ord, V> BTreeMap<K, V> {
    pub fn new() -> Self { Self { entries: Vec::new() } }
    pub fn len(&self) -> usize { self.entries.len() }
    pub fn is_empty(&self) -> bool { self.entries.is_empty() }
    fn search(&self, k: &K) -> Result<usize, usize> {
        let mut i = 0;
        while i < self.entries.len() {
            match self.entries[i].0.cmp(k) {
                std::cmp::Ordering::Less => i += 1,
                std::cmp::Ordering::Equal => return Ok(i),
                std::cmp::Ordering::Greater => return Err(i),
            }
        }
        Err(i)
    }
    pub fn get(&self, k: &K) -> Option<&V> { self.search(k).ok().map(|i| &self.entries[i].1) }
    pub fn get_mut(&mut self, k: &K) -> Option<&mut V> {
        match self.search(k) { Ok(i) => Some(&mut self.entries[i].1), Err(_) => None }
    }
    pub fn insert(&mut self, k: K, v: V) -> Option<V> {
        match self.search(&k) {
            Ok(i) => Some(std::mem::replace(&mut self.entries[i].1, v)),
            Err(i) => { self.entries.insert(i, (k, v)); None }
        }
    }
    pub fn values(&self) -> impl Iterator<Item = &V> { self.entries.iter().map(|(_, v)| v) }
    pub fn values_mut(&mut self) -> impl Iterator<Item = &mut V> { self.entries.iter_mut().map(|(_, v)| v) }
    pub fn iter(&self) -> impl Iterator<Item = (&K, &V)> { self.entries.iter().map(|(k, v)| (k, v)) }
    pub fn entry(&mut self, k: K) -> BEntry<'_, K, V> { BEntry { map: self, key: k } }
}
pub struct BEntry<'a, K, V> { map: &'a mut BTreeMap<K, V>, key: K }
impl<'a, K: Ord, V> BEntry<'a, K, V> {
    pub fn or_default(self) -> &'a mut V where V: Default {
        let i = match self.map.search(&self.key) {
            Ok(i) => i,
            Err(i) => { self.map.entries.insert(i, (self.key, V::default())); i }
        };
        &mut self.map.entries[i].1
    }
}

//! Vec-backed stand-ins for std::collections::{HashMap, HashSet} (API subset used by `dht`).
use std::borrow::Borrow;

#[derive(Clone)]
pub struct HashMap<K, V> {
    entries: Vec<(K, V)>,
}

impl<K, V> std::fmt::Debug for HashMap<K, V> {
    fn fmt(&self, f: &mut std::fmt::Formatter<'_>) -> std::fmt::Result {
        f.debug_struct("HashMap").field("len", &self.entries.len()).finish()
    }
}

impl<K, V> Default for HashMap<K, V> {
    fn default() -> Self { Self { entries: Vec::new() } }
}

impl<K: Eq, V> HashMap<K, V> {
    pub fn new() -> Self { Self { entries: Vec::new() } }
    pub fn len(&self) -> usize { self.entries.len() }
    pub fn is_empty(&self) -> bool { self.entries.is_empty() }
    fn position<Q>(&self, k: &Q) -> Option<usize>
    where K: Borrow<Q>, Q: Eq + ?Sized {
        let mut i = 0;
        while i < self.entries.len() {
            if self.entries[i].0.borrow() == k { return Some(i); }
            i += 1;
        }
        None
    }
    pub fn get<Q>(&self, k: &Q) -> Option<&V> where K: Borrow<Q>, Q: Eq + ?Sized {
        let i = self.position(k)?;
        Some(&self.entries[i].1)
    }
    pub fn get_mut<Q>(&mut self, k: &Q) -> Option<&mut V> where K: Borrow<Q>, Q: Eq + ?Sized {
        let i = self.position(k)?;
        Some(&mut self.entries[i].1)
    }
    pub fn contains_key<Q>(&self, k: &Q) -> bool where K: Borrow<Q>, Q: Eq + ?Sized {
        self.position(k).is_some()
    }
    pub fn insert(&mut self, k: K, v: V) -> Option<V> {
        if let Some(i) = self.position(&k) {
            let old = std::mem::replace(&mut self.entries[i].1, v);
            return Some(old);
        }
        self.entries.push((k, v));
        None
    }
    pub fn remove<Q>(&mut self, k: &Q) -> Option<V> where K: Borrow<Q>, Q: Eq + ?Sized {
        let i = self.position(k)?;
        Some(self.entries.swap_remove(i).1)
    }
    pub fn iter(&self) -> impl Iterator<Item = (&K, &V)> { self.entries.iter().map(|(k, v)| (k, v)) }
    pub fn iter_mut(&mut self) -> impl Iterator<Item = (&K, &mut V)> { self.entries.iter_mut().map(|(k, v)| (&*k, v)) }
    pub fn values(&self) -> impl Iterator<Item = &V> { self.entries.iter().map(|(_, v)| v) }
    pub fn values_mut(&mut self) -> impl Iterator<Item = &mut V> { self.entries.iter_mut().map(|(_, v)| v) }
    pub fn entry(&mut self, k: K) -> Entry<'_, K, V> { Entry { map: self, key: k } }
    pub fn keys(&self) -> impl Iterator<Item = &K> { self.entries.iter().map(|(k, _)| k) }
    pub fn clear(&mut self) { self.entries.clear() }
    pub fn retain<F: FnMut(&K, &mut V) -> bool>(&mut self, mut f: F) { self.entries.retain_mut(|(k, v)| f(k, v)) }
    pub fn drain(&mut self) -> std::vec::Drain<'_, (K, V)> { self.entries.drain(..) }
    pub fn get_key_value<Q>(&self, k: &Q) -> Option<(&K, &V)> where K: Borrow<Q>, Q: Eq + ?Sized {
        let i = self.position(k)?;
        Some((&self.entries[i].0, &self.entries[i].1))
    }
    pub fn remove_entry<Q>(&mut self, k: &Q) -> Option<(K, V)> where K: Borrow<Q>, Q: Eq + ?Sized {
        let i = self.position(k)?;
        Some(self.entries.swap_remove(i))
    }
    pub fn with_capacity(_n: usize) -> Self { Self::new() }
    pub fn into_values(self) -> impl Iterator<Item = V> { self.entries.into_iter().map(|(_, v)| v) }
    pub fn into_keys(self) -> impl Iterator<Item = K> { self.entries.into_iter().map(|(k, _)| k) }
}
impl<K, V> IntoIterator for HashMap<K, V> {
    type Item = (K, V);
    type IntoIter = std::vec::IntoIter<(K, V)>;
    fn into_iter(self) -> Self::IntoIter { self.entries.into_iter() }
}
impl<'a, K, V> IntoIterator for &'a HashMap<K, V> {
    type Item = (&'a K, &'a V);
    type IntoIter = std::iter::Map<std::slice::Iter<'a, (K, V)>, fn(&'a (K, V)) -> (&'a K, &'a V)>;
    fn into_iter(self) -> Self::IntoIter { self.entries.iter().map((|(k, v)| (k, v)) as fn(&'a (K, V)) -> (&'a K, &'a V)) }
}
impl<'a, K, V> IntoIterator for &'a mut HashMap<K, V> {
    type Item = (&'a K, &'a mut V);
    type IntoIter = std::iter::Map<std::slice::IterMut<'a, (K, V)>, fn(&'a mut (K, V)) -> (&'a K, &'a mut V)>;
    fn into_iter(self) -> Self::IntoIter { self.entries.iter_mut().map((|(k, v)| (&*k, v)) as fn(&'a mut (K, V)) -> (&'a K, &'a mut V)) }
}
impl<K: Eq, V> FromIterator<(K, V)> for HashMap<K, V> {
    fn from_iter<I: IntoIterator<Item = (K, V)>>(it: I) -> Self { let mut m = Self::new(); for (k, v) in it { m.insert(k, v); } m }
}
impl<K: Eq, V> Extend<(K, V)> for HashMap<K, V> {
    fn extend<I: IntoIterator<Item = (K, V)>>(&mut self, it: I) { for (k, v) in it { self.insert(k, v); } }
}

pub struct Entry<'a, K, V> {
    map: &'a mut HashMap<K, V>,
    key: K,
}

impl<'a, K: Eq, V> Entry<'a, K, V> {
    pub fn and_modify<F: FnOnce(&mut V)>(self, f: F) -> Self {
        if let Some(i) = self.map.position(&self.key) { f(&mut self.map.entries[i].1); }
        self
    }
    pub fn or_insert(self, default: V) -> &'a mut V {
        let i = match self.map.position(&self.key) {
            Some(i) => i,
            None => { self.map.entries.push((self.key, default)); self.map.entries.len() - 1 }
        };
        &mut self.map.entries[i].1
    }
    pub fn or_insert_with<F: FnOnce() -> V>(self, f: F) -> &'a mut V {
        let i = match self.map.position(&self.key) {
            Some(i) => i,
            None => { self.map.entries.push((self.key, f())); self.map.entries.len() - 1 }
        };
        &mut self.map.entries[i].1
    }
    pub fn or_default(self) -> &'a mut V where V: Default { self.or_insert_with(V::default) }
}

#[derive(Clone)]
pub struct HashSet<T> {
    entries: Vec<T>,
}

impl<T> std::fmt::Debug for HashSet<T> {
    fn fmt(&self, f: &mut std::fmt::Formatter<'_>) -> std::fmt::Result {
        f.debug_struct("HashSet").field("len", &self.entries.len()).finish()
    }
}

impl<T: Eq> HashSet<T> {
    pub fn new() -> Self { Self { entries: Vec::new() } }
    pub fn len(&self) -> usize { self.entries.len() }
    pub fn is_empty(&self) -> bool { self.entries.is_empty() }
    pub fn contains<Q>(&self, v: &Q) -> bool where T: Borrow<Q>, Q: Eq + ?Sized {
        let mut i = 0;
        while i < self.entries.len() {
            if self.entries[i].borrow() == v { return true; }
            i += 1;
        }
        false
    }
    pub fn insert(&mut self, v: T) -> bool {
        if self.contains(&v) { return false; }
        self.entries.push(v);
        true
    }
    pub fn iter(&self) -> std::slice::Iter<'_, T> { self.entries.iter() }
    pub fn remove<Q>(&mut self, v: &Q) -> bool where T: Borrow<Q>, Q: Eq + ?Sized {
        let mut i = 0;
        while i < self.entries.len() {
            if self.entries[i].borrow() == v { self.entries.swap_remove(i); return true; }
            i += 1;
        }
        false
    }
    pub fn clear(&mut self) { self.entries.clear() }
    pub fn with_capacity(_n: usize) -> Self { Self::new() }
    pub fn retain<F: FnMut(&T) -> bool>(&mut self, f: F) { self.entries.retain(f) }
}
impl<T> Default for HashSet<T> {
    fn default() -> Self { Self { entries: Vec::new() } }
}
impl<T> IntoIterator for HashSet<T> {
    type Item = T;
    type IntoIter = std::vec::IntoIter<T>;
    fn into_iter(self) -> Self::IntoIter { self.entries.into_iter() }
}
impl<'a, T> IntoIterator for &'a HashSet<T> {
    type Item = &'a T;
    type IntoIter = std::slice::Iter<'a, T>;
    fn into_iter(self) -> Self::IntoIter { self.entries.iter() }
}
impl<T: Eq> FromIterator<T> for HashSet<T> {
    fn from_iter<I: IntoIterator<Item = T>>(it: I) -> Self { let mut m = Self::new(); for v in it { m.insert(v); } m }
}
impl<T: Eq> Extend<T> for HashSet<T> {
    fn extend<I: IntoIterator<Item = T>>(&mut self, it: I) { for v in it { self.insert(v); } }
}

/// Keys of the `BTreeMap` stand-in map into a small index space (the crate only uses `u8`
/// distances as keys): lookups go through a direct position table instead of a search loop.
pub trait SlotKey: Ord + Copy {
    fn slot(&self) -> usize;
}
impl SlotKey for u8 {
    fn slot(&self) -> usize { *self as usize }
}

/// Sorted-Vec stand-in for std::collections::BTreeMap (API subset used by `dht`, plus the
/// neighbouring calls a refactor would plausibly reach for).  `entries` is kept in ascending key
/// order (iteration order is the real one); `pos[k]` is the entry's index + 1 (0 = absent), so
/// `get` / `get_mut` / `contains_key` are loop-free.
#[derive(Clone)]
pub struct BTreeMap<K, V> {
    entries: Vec<(K, V)>,
    pos: [u8; 256],
}
impl<K, V> std::fmt::Debug for BTreeMap<K, V> {
    fn fmt(&self, f: &mut std::fmt::Formatter<'_>) -> std::fmt::Result {
        f.debug_struct("BTreeMap").field("len", &self.entries.len()).finish()
    }
}
impl<K, V> Default for BTreeMap<K, V> {
    fn default() -> Self { Self { entries: Vec::new(), pos: [0; 256] } }
}
impl<K: SlotKey, V> BTreeMap<K, V> {
    pub fn new() -> Self { Self { entries: Vec::new(), pos: [0; 256] } }
    pub fn len(&self) -> usize { self.entries.len() }
    pub fn is_empty(&self) -> bool { self.entries.is_empty() }
    fn index_of(&self, k: &K) -> Option<usize> {
        let p = self.pos[k.slot()];
        if p == 0 { None } else { Some(p as usize - 1) }
    }
    fn insertion_point(&self, k: &K) -> usize {
        let mut i = 0;
        while i < self.entries.len() {
            if self.entries[i].0 > *k { return i; }
            i += 1;
        }
        i
    }
    /// sorted insertion without `Vec::insert`: push, then bubble the new entry down with adjacent
    /// swaps (a `Vec::insert` at an index CBMC cannot resolve is a memmove of symbolic length);
    /// returns the entry's final index
    fn insert_sorted(&mut self, k: K, v: V) -> usize {
        self.entries.push((k, v));
        let mut j = self.entries.len() - 1;
        while j > 0 && self.entries[j - 1].0 > self.entries[j].0 {
            self.entries.swap(j - 1, j);
            j -= 1;
        }
        j
    }
    fn reindex_from(&mut self, from: usize) {
        let mut j = from;
        while j < self.entries.len() {
            self.pos[self.entries[j].0.slot()] = (j + 1) as u8;
            j += 1;
        }
    }
    pub fn get(&self, k: &K) -> Option<&V> { self.index_of(k).map(|i| &self.entries[i].1) }
    pub fn get_mut(&mut self, k: &K) -> Option<&mut V> {
        match self.index_of(k) { Some(i) => Some(&mut self.entries[i].1), None => None }
    }
    pub fn contains_key(&self, k: &K) -> bool { self.index_of(k).is_some() }
    pub fn insert(&mut self, k: K, v: V) -> Option<V> {
        match self.index_of(&k) {
            Some(i) => Some(std::mem::replace(&mut self.entries[i].1, v)),
            None => {
                assert!(self.entries.len() < 255, "verif-vcoll: BTreeMap stand-in capacity exceeded");
                let i = self.insert_sorted(k, v);
                self.reindex_from(i);
                None
            }
        }
    }
    pub fn remove(&mut self, k: &K) -> Option<V> {
        match self.index_of(k) {
            Some(i) => {
                let (kk, v) = self.entries.remove(i);
                self.pos[kk.slot()] = 0;
                self.reindex_from(i);
                Some(v)
            }
            None => None,
        }
    }
    pub fn clear(&mut self) { self.entries.clear(); self.pos = [0; 256]; }
    /// splits the map at `k`: returns everything with key >= k, keeps the rest
    pub fn split_off(&mut self, k: &K) -> Self {
        let i = self.insertion_point_ge(k);
        let tail = self.entries.split_off(i);
        let mut other = Self { entries: tail, pos: [0; 256] };
        other.reindex_from(0);
        let mut j = 0;
        while j < other.entries.len() {
            self.pos[other.entries[j].0.slot()] = 0;
            j += 1;
        }
        other
    }
    fn insertion_point_ge(&self, k: &K) -> usize {
        let mut i = 0;
        while i < self.entries.len() {
            if self.entries[i].0 >= *k { return i; }
            i += 1;
        }
        i
    }
    pub fn append(&mut self, other: &mut Self) {
        let moved: Vec<(K, V)> = std::mem::take(&mut other.entries);
        other.pos = [0; 256];
        for (k, v) in moved { self.insert(k, v); }
    }
    pub fn retain<F: FnMut(&K, &mut V) -> bool>(&mut self, mut f: F) {
        self.entries.retain_mut(|(k, v)| f(k, v));
        self.pos = [0; 256];
        self.reindex_from(0);
    }
    pub fn first_key_value(&self) -> Option<(&K, &V)> { self.entries.first().map(|(k, v)| (k, v)) }
    pub fn last_key_value(&self) -> Option<(&K, &V)> { self.entries.last().map(|(k, v)| (k, v)) }
    pub fn keys(&self) -> impl Iterator<Item = &K> { self.entries.iter().map(|(k, _)| k) }
    pub fn values(&self) -> impl Iterator<Item = &V> { self.entries.iter().map(|(_, v)| v) }
    pub fn values_mut(&mut self) -> impl Iterator<Item = &mut V> { self.entries.iter_mut().map(|(_, v)| v) }
    pub fn iter(&self) -> impl Iterator<Item = (&K, &V)> { self.entries.iter().map(|(k, v)| (k, v)) }
    pub fn iter_mut(&mut self) -> impl Iterator<Item = (&K, &mut V)> { self.entries.iter_mut().map(|(k, v)| (&*k, v)) }
    pub fn entry(&mut self, k: K) -> BEntry<'_, K, V> { BEntry { map: self, key: k } }
}
impl<K, V> IntoIterator for BTreeMap<K, V> {
    type Item = (K, V);
    type IntoIter = std::vec::IntoIter<(K, V)>;
    fn into_iter(self) -> Self::IntoIter { self.entries.into_iter() }
}
impl<'a, K, V> IntoIterator for &'a BTreeMap<K, V> {
    type Item = (&'a K, &'a V);
    type IntoIter = std::iter::Map<std::slice::Iter<'a, (K, V)>, fn(&'a (K, V)) -> (&'a K, &'a V)>;
    fn into_iter(self) -> Self::IntoIter { self.entries.iter().map((|(k, v)| (k, v)) as fn(&'a (K, V)) -> (&'a K, &'a V)) }
}
impl<'a, K, V> IntoIterator for &'a mut BTreeMap<K, V> {
    type Item = (&'a K, &'a mut V);
    type IntoIter = std::iter::Map<std::slice::IterMut<'a, (K, V)>, fn(&'a mut (K, V)) -> (&'a K, &'a mut V)>;
    fn into_iter(self) -> Self::IntoIter { self.entries.iter_mut().map((|(k, v)| (&*k, v)) as fn(&'a mut (K, V)) -> (&'a K, &'a mut V)) }
}
impl<K: SlotKey, V> BTreeMap<K, V> {
    /// entries with lo <= key (and key < hi when given), ascending
    pub fn range_from(&self, lo: &K) -> impl DoubleEndedIterator<Item = (&K, &V)> {
        let lo = *lo;
        self.entries.iter().filter(move |(k, _)| *k >= lo).map(|(k, v)| (k, v))
    }
    pub fn range<R: std::ops::RangeBounds<K>>(&self, r: R) -> impl DoubleEndedIterator<Item = (&K, &V)> {
        self.entries.iter().filter(move |(k, _)| r.contains(k)).map(|(k, v)| (k, v))
    }
    pub fn range_mut<R: std::ops::RangeBounds<K>>(&mut self, r: R) -> impl DoubleEndedIterator<Item = (&K, &mut V)> {
        self.entries.iter_mut().filter(move |(k, _)| r.contains(k)).map(|(k, v)| (&*k, v))
    }
    pub fn into_values(self) -> impl Iterator<Item = V> { self.entries.into_iter().map(|(_, v)| v) }
    pub fn pop_first(&mut self) -> Option<(K, V)> {
        if self.entries.is_empty() { return None; }
        let (k, v) = self.entries.remove(0);
        self.pos[k.slot()] = 0;
        self.reindex_from(0);
        Some((k, v))
    }
    pub fn pop_last(&mut self) -> Option<(K, V)> {
        let (k, v) = self.entries.pop()?;
        self.pos[k.slot()] = 0;
        Some((k, v))
    }
}
impl<K: SlotKey, V> FromIterator<(K, V)> for BTreeMap<K, V> {
    fn from_iter<I: IntoIterator<Item = (K, V)>>(it: I) -> Self { let mut m = Self::new(); for (k, v) in it { m.insert(k, v); } m }
}
impl<K: SlotKey, V> Extend<(K, V)> for BTreeMap<K, V> {
    fn extend<I: IntoIterator<Item = (K, V)>>(&mut self, it: I) { for (k, v) in it { self.insert(k, v); } }
}
pub struct BEntry<'a, K, V> { map: &'a mut BTreeMap<K, V>, key: K }
impl<'a, K: SlotKey, V> BEntry<'a, K, V> {
    pub fn or_default(self) -> &'a mut V where V: Default {
        self.or_insert_with(V::default)
    }
    pub fn or_insert(self, default: V) -> &'a mut V {
        self.or_insert_with(|| default)
    }
    pub fn or_insert_with<F: FnOnce() -> V>(self, f: F) -> &'a mut V {
        let i = match self.map.index_of(&self.key) {
            Some(i) => i,
            None => {
                let i = self.map.insert_sorted(self.key, f());
                self.map.reindex_from(i);
                i
            }
        };
        &mut self.map.entries[i].1
    }
}

//! Fixed-slot stand-in for the `lru` crate (the API subset used by `dht` plus the neighbouring calls a refactor would plausibly reach for: pop, pop_entry, peek_mut, peek_lru, push, clear, get_or_insert, resize), for capacities <= 4.
//! No heap buffer and no indexing: every access is a direct field access, so a model checker
//! never sees a symbolic array index.  Slots are kept most-recently-used first.
use std::borrow::Borrow;
use std::num::NonZeroUsize;

#[derive(Clone)]
pub struct LruCache<K, V> {
    cap: NonZeroUsize,
    s0: Option<(K, V)>,
    s1: Option<(K, V)>,
    s2: Option<(K, V)>,
    s3: Option<(K, V)>,
}

impl<K, V> std::fmt::Debug for LruCache<K, V> {
    fn fmt(&self, f: &mut std::fmt::Formatter<'_>) -> std::fmt::Result {
        f.debug_struct("LruCache").field("cap", &self.cap).finish()
    }
}

fn hit<K, V, Q>(s: &Option<(K, V)>, k: &Q) -> bool
where K: Borrow<Q>, Q: Eq + ?Sized {
    match s { Some((sk, _)) => sk.borrow() == k, None => false }
}

impl<K: Eq, V> LruCache<K, V> {
    pub fn new(cap: NonZeroUsize) -> Self {
        Self { cap, s0: None, s1: None, s2: None, s3: None }
    }
    fn effective_cap(&self) -> usize {
        // the stand-in models at most 4 entries; larger configured capacities behave like 4
        if self.cap.get() > 4 { 4 } else { self.cap.get() }
    }
    pub fn len(&self) -> usize {
        self.s0.is_some() as usize + self.s1.is_some() as usize + self.s2.is_some() as usize + self.s3.is_some() as usize
    }
    pub fn is_empty(&self) -> bool { self.s0.is_none() }
    pub fn cap(&self) -> NonZeroUsize { self.cap }
    fn find<Q>(&self, k: &Q) -> usize where K: Borrow<Q>, Q: Eq + ?Sized {
        if hit(&self.s0, k) { 0 } else if hit(&self.s1, k) { 1 } else if hit(&self.s2, k) { 2 } else if hit(&self.s3, k) { 3 } else { 4 }
    }
    /// move slot `i` to the front, shifting the ones before it back by one
    fn promote(&mut self, i: usize) {
        if i == 1 { std::mem::swap(&mut self.s0, &mut self.s1); }
        else if i == 2 { std::mem::swap(&mut self.s1, &mut self.s2); std::mem::swap(&mut self.s0, &mut self.s1); }
        else if i == 3 { std::mem::swap(&mut self.s2, &mut self.s3); std::mem::swap(&mut self.s1, &mut self.s2); std::mem::swap(&mut self.s0, &mut self.s1); }
    }
    fn take_slot(&mut self, i: usize) -> Option<(K, V)> {
        if i == 0 { self.s0.take() } else if i == 1 { self.s1.take() } else if i == 2 { self.s2.take() } else { self.s3.take() }
    }
    fn set_slot(&mut self, i: usize, e: (K, V)) {
        if i == 0 { self.s0 = Some(e) } else if i == 1 { self.s1 = Some(e) } else if i == 2 { self.s2 = Some(e) } else { self.s3 = Some(e) }
    }
    pub fn put(&mut self, k: K, v: V) -> Option<V> {
        let i = self.find(&k);
        if i < 4 {
            let old = self.take_slot(i);
            self.set_slot(i, (k, v));
            self.promote(i);
            return old.map(|e| e.1);
        }
        let n = self.len();
        let slot = if n >= self.effective_cap() { n - 1 } else { n };
        self.set_slot(slot, (k, v));
        self.promote(slot);
        None
    }
    pub fn get<'a, Q>(&'a mut self, k: &Q) -> Option<&'a V> where K: Borrow<Q>, Q: Eq + ?Sized {
        let i = self.find(k);
        if i == 4 { return None; }
        self.promote(i);
        self.s0.as_ref().map(|e| &e.1)
    }
    pub fn get_mut<'a, Q>(&'a mut self, k: &Q) -> Option<&'a mut V> where K: Borrow<Q>, Q: Eq + ?Sized {
        let i = self.find(k);
        if i == 4 { return None; }
        self.promote(i);
        self.s0.as_mut().map(|e| &mut e.1)
    }
    pub fn peek<'a, Q>(&'a self, k: &Q) -> Option<&'a V> where K: Borrow<Q>, Q: Eq + ?Sized {
        let i = self.find(k);
        let s = if i == 0 { &self.s0 } else if i == 1 { &self.s1 } else if i == 2 { &self.s2 } else if i == 3 { &self.s3 } else { return None };
        s.as_ref().map(|e| &e.1)
    }
    pub fn contains<Q>(&self, k: &Q) -> bool where K: Borrow<Q>, Q: Eq + ?Sized { self.find(k) < 4 }
    pub fn pop_lru(&mut self) -> Option<(K, V)> {
        let n = self.len();
        if n == 0 { None } else { self.take_slot(n - 1) }
    }
    pub fn iter(&self) -> Iter<'_, K, V> { Iter { c: self, i: 0 } }
    /// close the gap left by an emptied slot `i` (keeps the most-recent-first order)
    fn compact(&mut self, i: usize) {
        if i == 0 { self.s0 = self.s1.take(); }
        if i <= 1 { self.s1 = self.s2.take(); }
        if i <= 2 { self.s2 = self.s3.take(); }
    }
    pub fn pop_entry<Q>(&mut self, k: &Q) -> Option<(K, V)> where K: Borrow<Q>, Q: Eq + ?Sized {
        let i = self.find(k);
        if i == 4 { return None; }
        let e = self.take_slot(i);
        self.compact(i);
        e
    }
    pub fn pop<Q>(&mut self, k: &Q) -> Option<V> where K: Borrow<Q>, Q: Eq + ?Sized {
        self.pop_entry(k).map(|e| e.1)
    }
    pub fn peek_mut<'a, Q>(&'a mut self, k: &Q) -> Option<&'a mut V> where K: Borrow<Q>, Q: Eq + ?Sized {
        let i = self.find(k);
        let s = if i == 0 { &mut self.s0 } else if i == 1 { &mut self.s1 } else if i == 2 { &mut self.s2 } else if i == 3 { &mut self.s3 } else { return None };
        s.as_mut().map(|e| &mut e.1)
    }
    pub fn peek_lru(&self) -> Option<(&K, &V)> {
        let n = self.len();
        let s = if n == 0 { return None } else if n == 1 { &self.s0 } else if n == 2 { &self.s1 } else if n == 3 { &self.s2 } else { &self.s3 };
        s.as_ref().map(|e| (&e.0, &e.1))
    }
    /// like `put`, but returns the replaced entry of the same key or the evicted least recently used entry
    pub fn push(&mut self, k: K, v: V) -> Option<(K, V)> {
        let i = self.find(&k);
        if i < 4 {
            let old = self.take_slot(i);
            self.set_slot(i, (k, v));
            self.promote(i);
            return old;
        }
        let n = self.len();
        let (slot, old) = if n >= self.effective_cap() { (n - 1, self.take_slot(n - 1)) } else { (n, None) };
        self.set_slot(slot, (k, v));
        self.promote(slot);
        old
    }
    pub fn clear(&mut self) { self.s0 = None; self.s1 = None; self.s2 = None; self.s3 = None; }
    /// change the capacity; shrinking evicts least recently used entries
    pub fn resize(&mut self, cap: NonZeroUsize) {
        self.cap = cap;
        let c = self.effective_cap();
        if c < 4 { self.s3 = None; }
        if c < 3 { self.s2 = None; }
        if c < 2 { self.s1 = None; }
    }
    pub fn get_or_insert<F: FnOnce() -> V>(&mut self, k: K, f: F) -> &V where K: Clone {
        if self.find(&k) == 4 { self.put(k, f()); } else { let i = self.find(&k); self.promote(i); }
        self.s0.as_ref().map(|e| &e.1).unwrap()
    }
}

pub struct Iter<'a, K, V> { c: &'a LruCache<K, V>, i: usize }
impl<'a, K, V> Iterator for Iter<'a, K, V> {
    type Item = (&'a K, &'a V);
    fn next(&mut self) -> Option<Self::Item> {
        let s = if self.i == 0 { &self.c.s0 } else if self.i == 1 { &self.c.s1 } else if self.i == 2 { &self.c.s2 } else if self.i == 3 { &self.c.s3 } else { return None };
        match s {
            Some((k, v)) => { self.i += 1; Some((k, v)) }
            None => None,
        }
    }
    fn size_hint(&self) -> (usize, Option<usize>) {
        let n = self.c.s0.is_some() as usize + self.c.s1.is_some() as usize + self.c.s2.is_some() as usize + self.c.s3.is_some() as usize;
        let r = if n > self.i { n - self.i } else { 0 };
        (r, Some(r))
    }
}
impl<'a, K, V> ExactSizeIterator for Iter<'a, K, V> {}

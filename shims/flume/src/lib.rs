//! Single-threaded stand-in for the `flume` channel API subset used by `dht`.
//! A blocking receive on an empty channel that still has senders can never return in a
//! single-threaded model: it panics with a recognisable message ("would block forever").
use std::cell::UnsafeCell;
use std::sync::Arc;

/// Fixed-capacity FIFO (capacity 4) with one field per slot and explicit if-chains: no array
/// indexing, so a model checker never sees a symbolic index into an array of (large) messages.
struct Queue<T> { s0: Option<T>, s1: Option<T>, s2: Option<T>, s3: Option<T>, head: usize, tail: usize }
impl<T> Queue<T> {
    fn new() -> Self { Self { s0: None, s1: None, s2: None, s3: None, head: 0, tail: 0 } }
    fn push_back(&mut self, v: T) {
        assert!(self.tail < 4, "verif-flume: stand-in queue capacity exceeded");
        if self.tail == 0 { self.s0 = Some(v) } else if self.tail == 1 { self.s1 = Some(v) } else if self.tail == 2 { self.s2 = Some(v) } else { self.s3 = Some(v) }
        self.tail += 1;
    }
    fn pop_front(&mut self) -> Option<T> {
        if self.head == self.tail { return None; }
        let v = if self.head == 0 { self.s0.take() } else if self.head == 1 { self.s1.take() } else if self.head == 2 { self.s2.take() } else { self.s3.take() };
        self.head += 1;
        v
    }
}

struct Shared<T> {
    queue: UnsafeCell<Queue<T>>,
    senders: UnsafeCell<usize>,
    receivers: UnsafeCell<usize>,
}
unsafe impl<T: Send> Send for Shared<T> {}
unsafe impl<T: Send> Sync for Shared<T> {}

pub struct Sender<T> { shared: Arc<Shared<T>> }
pub struct Receiver<T> { shared: Arc<Shared<T>> }

#[derive(Debug, PartialEq, Eq, Clone, Copy)]
pub struct SendError<T>(pub T);
#[derive(Debug, PartialEq, Eq, Clone, Copy)]
pub enum RecvError { Disconnected }
#[derive(Debug, PartialEq, Eq, Clone, Copy)]
pub enum TryRecvError { Empty, Disconnected }

pub fn unbounded<T>() -> (Sender<T>, Receiver<T>) {
    let shared = Arc::new(Shared { queue: UnsafeCell::new(Queue::new()), senders: UnsafeCell::new(1), receivers: UnsafeCell::new(1) });
    (Sender { shared: shared.clone() }, Receiver { shared })
}
pub fn bounded<T>(_cap: usize) -> (Sender<T>, Receiver<T>) { unbounded() }

impl<T> std::fmt::Debug for Sender<T> { fn fmt(&self, f: &mut std::fmt::Formatter<'_>) -> std::fmt::Result { f.write_str("Sender") } }
impl<T> std::fmt::Debug for Receiver<T> { fn fmt(&self, f: &mut std::fmt::Formatter<'_>) -> std::fmt::Result { f.write_str("Receiver") } }

impl<T> Clone for Sender<T> {
    fn clone(&self) -> Self { unsafe { *self.shared.senders.get() += 1; } Sender { shared: self.shared.clone() } }
}
impl<T> Drop for Sender<T> { fn drop(&mut self) { unsafe { *self.shared.senders.get() -= 1; } } }
impl<T> Clone for Receiver<T> {
    fn clone(&self) -> Self { unsafe { *self.shared.receivers.get() += 1; } Receiver { shared: self.shared.clone() } }
}
impl<T> Drop for Receiver<T> { fn drop(&mut self) { unsafe { *self.shared.receivers.get() -= 1; } } }

impl<T> Sender<T> {
    pub fn send(&self, msg: T) -> Result<(), SendError<T>> {
        if unsafe { *self.shared.receivers.get() } == 0 { return Err(SendError(msg)); }
        unsafe { (*self.shared.queue.get()).push_back(msg); }
        Ok(())
    }
}
impl<T> Receiver<T> {
    pub fn try_recv(&self) -> Result<T, TryRecvError> {
        match unsafe { (*self.shared.queue.get()).pop_front() } {
            Some(v) => Ok(v),
            None => if unsafe { *self.shared.senders.get() } == 0 { Err(TryRecvError::Disconnected) } else { Err(TryRecvError::Empty) },
        }
    }
    pub fn recv(&self) -> Result<T, RecvError> {
        match self.try_recv() {
            Ok(v) => Ok(v),
            Err(TryRecvError::Disconnected) => Err(RecvError::Disconnected),
            Err(TryRecvError::Empty) => panic!("verif-flume: recv would block forever"),
        }
    }
    pub fn into_iter(self) -> IntoIter<T> { IntoIter { receiver: self } }
}
pub struct IntoIter<T> { receiver: Receiver<T> }
impl<T> Iterator for IntoIter<T> {
    type Item = T;
    fn next(&mut self) -> Option<T> { self.receiver.recv().ok() }
}
impl<T> IntoIterator for Receiver<T> {
    type Item = T;
    type IntoIter = IntoIter<T>;
    fn into_iter(self) -> IntoIter<T> { IntoIter { receiver: self } }
}

#[cfg(feature = "async")]
pub mod r#async {
    use super::*;
    use std::future::Future;
    use std::marker::PhantomData;
    use std::pin::Pin;
    use std::task::{Context, Poll};

    pub struct RecvFut<'a, T> { pub(crate) receiver: Receiver<T>, pub(crate) _p: PhantomData<&'a ()> }
    impl<'a, T> Unpin for RecvFut<'a, T> {}
    impl<'a, T> Future for RecvFut<'a, T> {
        type Output = Result<T, RecvError>;
        fn poll(self: Pin<&mut Self>, _cx: &mut Context<'_>) -> Poll<Self::Output> {
            match self.receiver.try_recv() {
                Ok(v) => Poll::Ready(Ok(v)),
                Err(TryRecvError::Disconnected) => Poll::Ready(Err(RecvError::Disconnected)),
                Err(TryRecvError::Empty) => Poll::Pending,
            }
        }
    }
    pub struct RecvStream<'a, T> { pub(crate) receiver: Receiver<T>, pub(crate) _p: PhantomData<&'a ()> }
    impl<'a, T> Unpin for RecvStream<'a, T> {}
    impl<'a, T> futures_core::Stream for RecvStream<'a, T> {
        type Item = T;
        fn poll_next(self: Pin<&mut Self>, _cx: &mut Context<'_>) -> Poll<Option<T>> {
            match self.receiver.try_recv() {
                Ok(v) => Poll::Ready(Some(v)),
                Err(TryRecvError::Disconnected) => Poll::Ready(None),
                Err(TryRecvError::Empty) => Poll::Pending,
            }
        }
    }
    impl<T> Receiver<T> {
        pub fn recv_async(&self) -> RecvFut<'_, T> { RecvFut { receiver: self.clone(), _p: PhantomData } }
        pub fn into_stream<'a>(self) -> RecvStream<'a, T> { RecvStream { receiver: self, _p: PhantomData } }
    }
}

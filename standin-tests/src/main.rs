//! Differential validation of the dependency stand-ins (/verif/shims) against the real crates:
//! the same pseudo-random operation sequences (keys from a 4-element universe, capacities 1..=3)
//! are applied to both; every return value and the final contents must agree.
use std::collections::{BTreeMap as RB, HashMap as RH, HashSet as RS};
use std::num::NonZeroUsize;

struct Lcg(u64);
impl Lcg {
    fn next(&mut self) -> u64 {
        self.0 = self.0.wrapping_mul(6364136223846793005).wrapping_add(1442695040888963407);
        self.0 >> 33
    }
    fn below(&mut self, n: u64) -> u64 { self.next() % n }
}

fn lru(rounds: usize, rng: &mut Lcg) {
    for _ in 0..rounds {
        let cap = NonZeroUsize::new(1 + rng.below(3) as usize).unwrap();
        let mut a = lru_real::LruCache::<u8, u32>::new(cap);
        let mut b = lru_shim::LruCache::<u8, u32>::new(cap);
        for _ in 0..12 {
            let k = rng.below(4) as u8;
            let v = rng.below(1000) as u32;
            match rng.below(15) {
                14 => { let c = NonZeroUsize::new(1 + rng.below(3) as usize).unwrap(); a.resize(c); b.resize(c); }
                0 | 1 => assert_eq!(a.put(k, v), b.put(k, v)),
                8 => assert_eq!(a.pop(&k), b.pop(&k)),
                9 => assert_eq!(a.pop_entry(&k), b.pop_entry(&k)),
                10 => {
                    let (x, y) = (a.peek_mut(&k).map(|e| { *e += 1; *e }), b.peek_mut(&k).map(|e| { *e += 1; *e }));
                    assert_eq!(x, y)
                }
                11 => assert_eq!(a.peek_lru().map(|(k, v)| (*k, *v)), b.peek_lru().map(|(k, v)| (*k, *v))),
                12 => assert_eq!(a.push(k, v), b.push(k, v)),
                13 => assert_eq!(*a.get_or_insert(k, || v), *b.get_or_insert(k, || v)),
                2 => assert_eq!(a.get(&k).copied(), b.get(&k).copied()),
                3 => {
                    let (x, y) = (a.get_mut(&k).map(|e| { *e += 1; *e }), b.get_mut(&k).map(|e| { *e += 1; *e }));
                    assert_eq!(x, y)
                }
                4 => assert_eq!(a.peek(&k).copied(), b.peek(&k).copied()),
                5 => assert_eq!(a.pop_lru(), b.pop_lru()),
                6 => assert_eq!(a.contains(&k), b.contains(&k)),
                _ => assert_eq!(a.len(), b.len()),
            }
            let ia: Vec<(u8, u32)> = a.iter().map(|(k, v)| (*k, *v)).collect();
            let ib: Vec<(u8, u32)> = b.iter().map(|(k, v)| (*k, *v)).collect();
            assert_eq!(ia, ib, "lru iteration order (most recent first)");
            assert_eq!(a.iter().len(), b.iter().len());
        }
    }
}

fn maps(rounds: usize, rng: &mut Lcg) {
    for _ in 0..rounds {
        let mut a: RH<u8, u32> = RH::new();
        let mut b: vcoll::HashMap<u8, u32> = vcoll::HashMap::new();
        let mut sa: RS<u8> = RS::new();
        let mut sb: vcoll::HashSet<u8> = vcoll::HashSet::new();
        let mut ta: RB<u8, Vec<u32>> = RB::new();
        let mut tb: vcoll::BTreeMap<u8, Vec<u32>> = vcoll::BTreeMap::new();
        for _ in 0..14 {
            let k = rng.below(4) as u8;
            let v = rng.below(1000) as u32;
            match rng.below(22) {
                16 => {
                    // by-reference iteration, ranges
                    let ia: Vec<(u8, usize)> = (&ta).into_iter().map(|(k, v)| (*k, v.len())).collect();
                    let ib: Vec<(u8, usize)> = (&tb).into_iter().map(|(k, v)| (*k, v.len())).collect();
                    assert_eq!(ia, ib);
                    let ra: Vec<u8> = ta.range(k..).map(|(k, _)| *k).collect();
                    let rb: Vec<u8> = tb.range(k..).map(|(k, _)| *k).collect();
                    assert_eq!(ra, rb, "range from");
                    let ra: Vec<u8> = ta.range(..=k).rev().map(|(k, _)| *k).collect();
                    let rb: Vec<u8> = tb.range(..=k).rev().map(|(k, _)| *k).collect();
                    assert_eq!(ra, rb, "range to, reversed");
                    for (_, v) in &mut ta { v.push(1) }
                    for (_, v) in &mut tb { v.push(1) }
                }
                17 => assert_eq!(ta.pop_first(), tb.pop_first()),
                18 => assert_eq!(ta.pop_last(), tb.pop_last()),
                19 => {
                    a.retain(|kk, _| *kk != k); b.retain(|kk, _| *kk != k);
                    assert_eq!(a.get_key_value(&k).map(|(k, v)| (*k, *v)), b.get_key_value(&k).map(|(k, v)| (*k, *v)));
                }
                20 => {
                    assert_eq!(a.remove_entry(&k), b.remove_entry(&k));
                    let mut ka: Vec<u8> = a.keys().copied().collect(); let mut kb: Vec<u8> = b.keys().copied().collect();
                    ka.sort(); kb.sort(); assert_eq!(ka, kb);
                    let mut ia: Vec<(u8, u32)> = (&a).into_iter().map(|(k, v)| (*k, *v)).collect();
                    let mut ib: Vec<(u8, u32)> = (&b).into_iter().map(|(k, v)| (*k, *v)).collect();
                    ia.sort(); ib.sort(); assert_eq!(ia, ib);
                    *a.entry(k).or_insert_with(|| 5) += 1; *b.entry(k).or_insert_with(|| 5) += 1;
                }
                21 => {
                    assert_eq!(sa.remove(&k), sb.remove(&k));
                    let mut xa: Vec<u8> = (&sa).into_iter().copied().collect(); let mut xb: Vec<u8> = (&sb).into_iter().copied().collect();
                    xa.sort(); xb.sort(); assert_eq!(xa, xb);
                }
                0 | 1 => assert_eq!(a.insert(k, v), b.insert(k, v)),
                10 => assert_eq!(ta.insert(k, vec![v]), tb.insert(k, vec![v])),
                11 => assert_eq!(ta.remove(&k), tb.remove(&k)),
                12 => assert_eq!(ta.contains_key(&k), tb.contains_key(&k)),
                13 => {
                    let (mut xa, mut xb) = (ta.split_off(&k), tb.split_off(&k));
                    let ia: Vec<(u8, Vec<u32>)> = xa.iter().map(|(k, v)| (*k, v.clone())).collect();
                    let ib: Vec<(u8, Vec<u32>)> = xb.iter().map(|(k, v)| (*k, v.clone())).collect();
                    assert_eq!(ia, ib, "split_off tail");
                    if rng.below(2) == 0 { ta.append(&mut xa); tb.append(&mut xb); }
                }
                14 => { ta.retain(|kk, _| *kk != k); tb.retain(|kk, _| *kk != k); }
                15 => {
                    assert_eq!(ta.first_key_value().map(|(k, _)| *k), tb.first_key_value().map(|(k, _)| *k));
                    assert_eq!(ta.last_key_value().map(|(k, _)| *k), tb.last_key_value().map(|(k, _)| *k));
                    assert_eq!(ta.keys().copied().collect::<Vec<u8>>(), tb.keys().copied().collect::<Vec<u8>>());
                    assert_eq!(ta.get(&k), tb.get(&k));
                }
                2 => assert_eq!(a.remove(&k), b.remove(&k)),
                3 => assert_eq!(a.get(&k), b.get(&k)),
                4 => assert_eq!(a.contains_key(&k), b.contains_key(&k)),
                5 => {
                    *a.entry(k).and_modify(|c| *c += 1).or_insert(1) += 0;
                    *b.entry(k).and_modify(|c| *c += 1).or_insert(1) += 0;
                }
                6 => assert_eq!(sa.insert(k), sb.insert(k)),
                7 => assert_eq!(sa.contains(&k), sb.contains(&k)),
                8 => {
                    ta.entry(k).or_default().push(v);
                    tb.entry(k).or_default().push(v);
                }
                _ => {
                    if let Some(x) = a.get_mut(&k) { *x += 7 }
                    if let Some(x) = b.get_mut(&k) { *x += 7 }
                    assert_eq!(ta.get_mut(&k).map(|x| x.len()), tb.get_mut(&k).map(|x| x.len()));
                }
            }
            assert_eq!(a.len(), b.len());
            let mut ia: Vec<(u8, u32)> = a.iter().map(|(k, v)| (*k, *v)).collect();
            let mut ib: Vec<(u8, u32)> = b.iter().map(|(k, v)| (*k, *v)).collect();
            ia.sort(); ib.sort();
            assert_eq!(ia, ib, "hashmap contents as multisets");
            let mut va: Vec<u32> = a.values().copied().collect();
            let mut vb: Vec<u32> = b.values().copied().collect();
            va.sort(); vb.sort();
            assert_eq!(va, vb);
            assert_eq!(sa.len(), sb.len());
            let ia: Vec<(u8, Vec<u32>)> = ta.iter().map(|(k, v)| (*k, v.clone())).collect();
            let ib: Vec<(u8, Vec<u32>)> = tb.iter().map(|(k, v)| (*k, v.clone())).collect();
            assert_eq!(ia, ib, "btreemap iteration is ascending by key");
            let va: Vec<usize> = ta.values().map(|v| v.len()).collect();
            let vb: Vec<usize> = tb.values().map(|v| v.len()).collect();
            assert_eq!(va, vb);
        }
    }
}

fn channels(rounds: usize, rng: &mut Lcg) {
    for _ in 0..rounds {
        let (ta, ra) = flume_real::unbounded::<u32>();
        let (tb, rb) = flume_shim::unbounded::<u32>();
        let (mut ta, mut tb) = (Some(ta), Some(tb));
        let mut queued = 0;
        for _ in 0..10 {
            match rng.below(4) {
                0 | 1 => {
                    let v = rng.below(100) as u32;
                    if queued < 4 {
                        let x = ta.as_ref().map(|t| t.send(v).is_ok());
                        let y = tb.as_ref().map(|t| t.send(v).is_ok());
                        assert_eq!(x, y);
                        if x == Some(true) { queued += 1 }
                    }
                }
                2 => {
                    let x = ra.try_recv().map_err(|e| matches!(e, flume_real::TryRecvError::Disconnected));
                    let y = rb.try_recv().map_err(|e| matches!(e, flume_shim::TryRecvError::Disconnected));
                    assert_eq!(x, y);
                }
                _ => { ta = None; tb = None; }
            }
        }
        drop(ta); drop(tb);
        // after disconnect: blocking recv / iteration drain the same items
        let xs: Vec<u32> = ra.into_iter().collect();
        let ys: Vec<u32> = rb.into_iter().collect();
        assert_eq!(xs, ys);
        // send after the receiver is gone fails on both
        let (ta, ra) = flume_real::unbounded::<u32>();
        let (tb, rb) = flume_shim::unbounded::<u32>();
        drop(ra); drop(rb);
        assert_eq!(ta.send(1).is_err(), tb.send(1).is_err());
    }
}

// the decimal Display stand-in of the harness environment (extracted from harness/env.rs by
// bin/validate_standins) against std's formatter
mod dec_extracted;
struct ViaI64(i64);
impl std::fmt::Display for ViaI64 {
    fn fmt(&self, f: &mut std::fmt::Formatter<'_>) -> std::fmt::Result { dec_extracted::dec::i64_display(&self.0, f) }
}
struct ViaUsize(usize);
impl std::fmt::Display for ViaUsize {
    fn fmt(&self, f: &mut std::fmt::Formatter<'_>) -> std::fmt::Result { dec_extracted::dec::usize_display(&self.0, f) }
}
fn decimals(rounds: usize, rng: &mut Lcg) {
    let mut check = |v: i64| {
        assert_eq!(format!("3:seqi{}e", ViaI64(v)), format!("3:seqi{}e", v), "i64 decimal");
        let u = v as usize;
        assert_eq!(format!("{}:", ViaUsize(u)), format!("{}:", u), "usize decimal");
    };
    for v in [0i64, 1, -1, 9, 10, -10, 99, 100, 999, 1000, i64::MAX, i64::MIN, i64::MIN + 1, 1 << 32, -(1 << 32)] { check(v) }
    for _ in 0..rounds {
        let a = rng.below(u32::MAX as u64);
        let b = rng.below(u32::MAX as u64);
        let v = ((a << 32) | b) as i64;
        check(v >> (rng.below(64) as u32));
    }
}

fn main() {
    let seed: u64 = std::env::var("VERIF_SEED").ok().and_then(|s| s.parse().ok()).unwrap_or(0);
    let mut rng = Lcg(seed ^ 0x9e3779b97f4a7c15);
    let rounds = 100_000;
    lru(rounds, &mut rng);
    maps(rounds, &mut rng);
    channels(rounds, &mut rng);
    decimals(rounds, &mut rng);
    println!("stand-ins agree with the real crates on {} random sequences each (lru, vcoll, flume); decimal Display stub agrees with std on {} values", rounds, rounds);
}

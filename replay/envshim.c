/* LD_PRELOAD shim for native replay of solver counterexamples.
 * Until armed by the harness (verif_set_clock / verif_set_wall / verif_set_rand) every call is
 * forwarded to libc, so cargo/rustc/the test runner are unaffected.
 *   clock_gettime(MONOTONIC|BOOTTIME|...) -> virtual monotonic seconds (whole seconds, like the
 *                                            symbolic clock of the harnesses)
 *   clock_gettime(CLOCK_REALTIME)         -> virtual wall clock in microseconds
 *   getrandom                             -> bytes from a queue filled by the harness
 */
#define _GNU_SOURCE
#include <dlfcn.h>
#include <stdint.h>
#include <string.h>
#include <sys/types.h>
#include <time.h>

static int mono_armed = 0, wall_armed = 0, rnd_armed = 0;
static int64_t virt_s = 0;
static uint64_t wall_us = 0;
static unsigned char rnd_q[4096];
static size_t rnd_len = 0, rnd_pos = 0;

void verif_set_clock(int64_t s) { mono_armed = 1; virt_s = 1000000 + s; }
void verif_set_wall(uint64_t us) { wall_armed = 1; wall_us = us; }
void verif_push_rand(const unsigned char *p, size_t n) {
    rnd_armed = 1;
    if (n > sizeof(rnd_q) - rnd_len) n = sizeof(rnd_q) - rnd_len;
    memcpy(rnd_q + rnd_len, p, n);
    rnd_len += n;
}

int clock_gettime(clockid_t id, struct timespec *ts) {
    static int (*real)(clockid_t, struct timespec *) = 0;
    if (!real) real = (int (*)(clockid_t, struct timespec *))dlsym(RTLD_NEXT, "clock_gettime");
    if (id == CLOCK_REALTIME && wall_armed) {
        ts->tv_sec = (time_t)(wall_us / 1000000);
        ts->tv_nsec = (long)((wall_us % 1000000) * 1000);
        return 0;
    }
    if (id != CLOCK_REALTIME && mono_armed) {
        ts->tv_sec = (time_t)virt_s;
        ts->tv_nsec = 0;
        return 0;
    }
    return real(id, ts);
}

ssize_t getrandom(void *buf, size_t len, unsigned int flags) {
    static ssize_t (*real)(void *, size_t, unsigned int) = 0;
    if (!real) real = (ssize_t (*)(void *, size_t, unsigned int))dlsym(RTLD_NEXT, "getrandom");
    if (!rnd_armed) return real(buf, len, flags);
    unsigned char *b = (unsigned char *)buf;
    for (size_t i = 0; i < len; i++) b[i] = rnd_pos < rnd_len ? rnd_q[rnd_pos++] : 0x42;
    return (ssize_t)len;
}

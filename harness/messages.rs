//! C05.O1 (decoder totality, typed level) and C10 (typed <-> mirror round trip, compact formats).
//! Private names used: `Message::{into_serde_message, from_serde_message}`, `internal::*`,
//! `bytes_to_*` / `*_to_bytes` helpers, `NODE_BYTE_SIZE`.
//! Stand-ins: none needed (no logging, no containers) except the clock stub for `Node::new`.
use super::*;
#[allow(unused_imports)]
use crate::verif_env::k as kani;
use crate::verif_env::clock;
use serde_bytes::ByteBuf;

//@ ob: C05.O1a
//@ rss: 0.3
//@ time: 10
//@ tier: quick
//@ cap: 800
//@ also: C10
//@ desc: bytes_to_signed_peer is total on every entry length 0..=210 and accepts exactly 104 bytes, mapping k = bytes[0..32], t = big-endian bytes[32..40], sig = bytes[40..104]; signed_peer_to_bytes is its inverse
//@ bounds: entry length symbolic 0..=210, contents symbolic; unwind 106
//@ stubs: none
//@ functions: bytes_to_signed_peer, signed_peer_to_bytes
#[kani::proof]
#[kani::unwind(106)]
fn c05_o1a_signed_peer_entry() {
    let buf: [u8; 210] = kani::env();
    let len: usize = kani::any();
    kani::assume(len <= 210);
    let r = bytes_to_signed_peer(&buf[..len]);
    assert!(r.is_ok() == (len == 104), "C05.O1 signed peer entry accepted iff exactly 104 bytes");
    if let Ok((k, t, sig)) = &r {
        assert!(k[0] == buf[0] && k[31] == buf[31], "C10.O2 signed peer: key is bytes 0..32");
        let mut tt = 0u64;
        let mut i = 0;
        while i < 8 {
            tt = (tt << 8) | buf[32 + i] as u64;
            i += 1;
        }
        assert!(*t == tt, "C10.O2 signed peer: timestamp is big-endian bytes 32..40");
        assert!(sig[0] == buf[40] && sig[63] == buf[103], "C10.O2 signed peer: signature is bytes 40..104");
        let back = signed_peer_to_bytes(&(*k, *t, *sig));
        let mut i = 0;
        while i < 104 {
            assert!(back[i] == buf[i], "C10.O2 signed peer encoding round-trips");
            i += 1;
        }
    }
    kani::cover!(r.is_ok());
    kani::cover!(len == 0);
    kani::cover!(len == 208);
    std::mem::forget(r);
}

//@ ob: C05.O1b
//@ rss: 0.3
//@ time: 7
//@ tier: quick
//@ cap: 800
//@ also: C10
//@ desc: bytes_to_sockaddr is total on lengths 0..=20: Ok iff 6 bytes (ip big-endian, port big-endian), 18 bytes -> Ipv6Unsupported, anything else an error; sockaddr_to_bytes is its inverse (compact peer format)
//@ bounds: length symbolic 0..=20, contents symbolic; unwind 22
//@ stubs: none
//@ functions: bytes_to_sockaddr, sockaddr_to_bytes
#[kani::proof]
#[kani::unwind(22)]
fn c05_o1b_sockaddr() {
    let buf: [u8; 20] = kani::env();
    let len: usize = kani::any();
    kani::assume(len <= 20);
    let r = bytes_to_sockaddr(&buf[..len]);
    assert!(r.is_ok() == (len == 6), "C05.O1 compact address accepted iff 6 bytes");
    if let Ok(a) = &r {
        let o = a.ip().octets();
        assert!(o[0] == buf[0] && o[1] == buf[1] && o[2] == buf[2] && o[3] == buf[3], "C10.O2 compact peer: ip is bytes 0..4");
        assert!(a.port() == ((buf[4] as u16) << 8 | buf[5] as u16), "C10.O2 compact peer: port big-endian");
        let back = sockaddr_to_bytes(a);
        assert!(back[0] == buf[0] && back[3] == buf[3] && back[4] == buf[4] && back[5] == buf[5], "C10.O2 compact peer round-trips");
    }
    if len == 18 {
        assert!(matches!(r, Err(DecodeMessageError::Ipv6Unsupported)), "C05.O1 18-byte address reported as unsupported IPv6");
    }
    kani::cover!(r.is_ok());
    kani::cover!(len == 18);
    std::mem::forget(r);
}

//@ ob: C05.O1c
//@ tier: off
//@ cap: 2400
//@ also: C10
//@ desc: bytes_to_nodes4 is total on lengths {0, 25, 26, 27, 52}: Ok iff a multiple of 26, yielding len/26 nodes with id = bytes[0..20], ip = bytes[20..24], port big-endian bytes[24..26]; nodes4_to_bytes is its inverse
//@ bounds: the five stated lengths, contents symbolic; unwind 28
//@ stubs: std::time::Instant::now -> symbolic clock (Node::new)
//@ functions: bytes_to_nodes4, nodes4_to_bytes, bytes_to_sockaddr, Id::from_bytes
#[kani::proof]
#[kani::stub(std::time::Instant::now, clock::now)]
#[kani::unwind(28)]
fn c05_o1c_nodes4() {
    clock::set(0);
    let buf: [u8; 52] = kani::env();
    let which: u8 = kani::any();
    let len = match which {
        0 => 0usize,
        1 => 25,
        2 => 26,
        3 => 27,
        _ => 52,
    };
    let r = bytes_to_nodes4(&buf[..len]);
    assert!(r.is_ok() == (len % 26 == 0), "C05.O1 compact nodes accepted iff length is a multiple of 26");
    if let Ok(ns) = &r {
        assert!(ns.len() == len / 26, "C10.O2 one node per 26 bytes");
        if len == 52 {
            let n = &ns[1];
            assert!(n.id().as_bytes()[0] == buf[26] && n.id().as_bytes()[19] == buf[45], "C10.O2 compact node: id is the first 20 bytes");
            assert!(n.address().ip().octets()[0] == buf[46] && n.address().port() == ((buf[50] as u16) << 8 | buf[51] as u16), "C10.O2 compact node: ip and big-endian port follow");
            let back = nodes4_to_bytes(ns);
            assert!(back.len() == 52 && back[0] == buf[0] && back[25] == buf[25] && back[26] == buf[26] && back[51] == buf[51], "C10.O2 compact nodes round-trip");
            std::mem::forget(back);
        }
    }
    kani::cover!(len == 52 && r.is_ok());
    kani::cover!(len == 27);
    std::mem::forget(r);
}

fn tid_vec(len: usize, b: [u8; 5]) -> Vec<u8> {
    match len {
        0 => vec![],
        1 => vec![b[0]],
        2 => vec![b[0], b[1]],
        3 => vec![b[0], b[1], b[2]],
        4 => vec![b[0], b[1], b[2], b[3]],
        _ => vec![b[0], b[1], b[2], b[3], b[4]],
    }
}

//@ ob: C05.O1d
//@ rss: 0.5
//@ time: 45
//@ tier: quick
//@ cap: 800
//@ also: C10
//@ desc: Message::from_serde_message on an error message with a transaction id of length 0..=5, optional ip of any 6 bytes, symbolic ro and error code: total; accepted iff the tid has 2 or 4 bytes (big-endian value); ro > 0 means read-only
//@ bounds: tid length 0..=5 symbolic bytes; ro symbolic Option<i32>; code symbolic i32; unwind 8
//@ stubs: none
//@ functions: Message::from_serde_message (envelope + error arm), bytes_to_sockaddr
#[kani::proof]
#[kani::unwind(8)]
fn c05_o1d_envelope_tid() {
    let b: [u8; 5] = kani::env();
    let len: usize = kani::any();
    kani::assume(len <= 5);
    let ro: Option<i32> = kani::any();
    let code: i32 = kani::any();
    let ip: Option<[u8; 6]> = if kani::any() { Some(kani::env()) } else { None };
    let msg = internal::DHTMessage {
        transaction_id: tid_vec(len, b),
        version: None,
        ip,
        read_only: ro,
        variant: internal::DHTMessageVariant::Error(internal::DHTErrorSpecific { error_info: (code, String::new()) }),
    };
    let r = Message::from_serde_message(msg);
    assert!(r.is_ok() == (len == 2 || len == 4), "C10 transaction ids of 2 and 4 bytes are accepted, others rejected");
    if let Ok(m) = &r {
        let expect = if len == 2 { ((b[0] as u32) << 8) | b[1] as u32 } else { ((b[0] as u32) << 24) | ((b[1] as u32) << 16) | ((b[2] as u32) << 8) | b[3] as u32 };
        assert!(m.transaction_id == expect, "C10 transaction id decoded big-endian");
        assert!(m.read_only == matches!(ro, Some(x) if x > 0), "C10 ro > 0 means read-only");
        assert!(matches!(&m.message_type, MessageType::Error(e) if e.code == code), "C10 error code preserved");
        assert!(m.requester_ip.is_some() == ip.is_some(), "C10 ip field preserved");
    }
    kani::cover!(r.is_ok() && len == 2);
    kani::cover!(r.is_ok() && len == 4);
    kani::cover!(len == 3);
    std::mem::forget(r);
}

//@ ob: C05.O1e
//@ tier: thorough
//@ cap: 1800
//@ rss: 11.9
//@ time: 440
//@ desc: Message::from_serde_message on a get_signed_peers response whose single peers entry has any length 0..=210, with optional nodes of length {0, 26, 27}: total (no panic, no out-of-bounds); accepted iff the entry has exactly 104 bytes and nodes are a multiple of 26
//@ bounds: entry length symbolic 0..=210 (zero bytes), nodes length from the stated set; token 4 bytes; unwind 6
//@ stubs: std::time::Instant::now -> symbolic clock
//@ functions: Message::from_serde_message (get_signed_peers response arm), bytes_to_signed_peers, bytes_to_nodes4
#[kani::proof]
#[kani::stub(std::time::Instant::now, clock::now)]
#[kani::unwind(6)]
fn c05_o1e_response_signed_peers() {
    clock::set(0);
    let len: usize = kani::any();
    kani::assume(len <= 210);
    let entry = ByteBuf::from(vec![0u8; len]);
    let nw: u8 = kani::any();
    let nodes: Option<Box<[u8]>> = match nw {
        0 => None,
        1 => Some(Box::new([])),
        2 => Some(Box::new([0u8; 26])),
        _ => Some(Box::new([0u8; 27])),
    };
    let msg = internal::DHTMessage {
        transaction_id: vec![kani::any(), kani::any()],
        version: None,
        ip: None,
        read_only: None,
        variant: internal::DHTMessageVariant::Response(internal::DHTResponseSpecific::GetSignedPeers {
            arguments: internal::DHTGetSignedPeersResponseArguments { id: [1; 20], token: Box::new([1, 2, 3, 4]), nodes, peers: vec![entry] },
        }),
    };
    let r = Message::from_serde_message(msg);
    if nw <= 2 {
        assert!(r.is_ok() == (len == 104), "C05.O1 signed peer entry accepted iff exactly 104 bytes");
    }
    if nw >= 3 {
        assert!(r.is_err(), "C05.O1 compact nodes accepted iff length is a multiple of 26");
    }
    kani::cover!(r.is_ok());
    kani::cover!(len == 0);
    kani::cover!(len == 208 && nw <= 2);
    std::mem::forget(r);
}

fn put_value(k: Option<[u8; 32]>, sig: Option<[u8; 64]>, seq: Option<i64>, cas: Option<i64>, salt: Option<Box<[u8]>>) -> internal::DHTMessage {
    internal::DHTMessage {
        transaction_id: vec![1, 2],
        version: None,
        ip: None,
        read_only: kani::any(),
        variant: internal::DHTMessageVariant::Request(internal::DHTRequestSpecific::PutValue {
            arguments: internal::DHTPutValueRequestArguments { id: [1; 20], target: [2; 20], token: Box::new([1, 2, 3, 4]), v: Box::new([7]), k, sig, seq, cas, salt },
        }),
    }
}

//@ ob: C05.O1f
//@ tier: off
//@ cap: 3000
//@ mem: 40
//@ alone: true
//@ desc: Message::from_serde_message on a 'put' request carrying k but no seq (sig present or not): total -- a decode error, not a panic
//@ bounds: k present (concrete bytes), seq absent, sig symbolic presence, cas symbolic Option<i64>; unwind 4
//@ stubs: none
//@ functions: Message::from_serde_message (put arm)
#[kani::proof]
#[kani::unwind(4)]
fn c05_o1f_put_k_without_seq() {
    let sig = if kani::any() { Some([4u8; 64]) } else { None };
    let r = Message::from_serde_message(put_value(Some([3; 32]), sig, None, kani::any(), None));
    assert!(r.is_err(), "C05.O1 put with k but no seq is a decode error");
    kani::cover!(r.is_err());
    std::mem::forget(r);
}

//@ ob: C05.O1g
//@ tier: off
//@ cap: 3000
//@ mem: 40
//@ alone: true
//@ desc: Message::from_serde_message on a 'put' request carrying k and a symbolic seq but no sig: total -- a decode error; with k, seq and sig: a PutMutable with those fields; without k: a PutImmutable
//@ bounds: k symbolic presence, sig symbolic presence, seq present with full i64, cas symbolic; unwind 4
//@ stubs: none
//@ functions: Message::from_serde_message (put arm)
#[kani::proof]
#[kani::unwind(4)]
fn c05_o1g_put_presence() {
    let has_k: bool = kani::any();
    let has_sig: bool = kani::any();
    let seq: i64 = kani::any();
    let cas: Option<i64> = kani::any();
    let k = if has_k { Some([3u8; 32]) } else { None };
    let sig = if has_sig { Some([4u8; 64]) } else { None };
    let r = Message::from_serde_message(put_value(k, sig, Some(seq), cas, None));
    if has_k && !has_sig {
        assert!(r.is_err(), "C05.O1 put with k but no sig is a decode error");
    } else if let Ok(m) = &r {
        match &m.message_type {
            MessageType::Request(RequestSpecific { request_type: RequestTypeSpecific::Put(p), .. }) => match &p.put_request_type {
                PutRequestSpecific::PutMutable(a) => assert!(has_k && a.seq == seq && a.cas == cas, "C10 put_mutable fields preserved"),
                PutRequestSpecific::PutImmutable(_) => assert!(!has_k, "C10 put without k is immutable"),
                _ => assert!(false, "C10 put decodes to a put"),
            },
            _ => assert!(false, "C10 put decodes to a put"),
        }
    } else {
        assert!(false, "C10 well-formed put decodes");
    }
    kani::cover!(r.is_ok() && has_k);
    kani::cover!(r.is_ok() && !has_k);
    kani::cover!(r.is_err());
    std::mem::forget(r);
}

//@ ob: C10.O1a
//@ tier: off
//@ cap: 2400
//@ mem: 24
//@ desc: announce_peer encoding: into_serde_message maps implied_port to 1 iff it is Some(true) (None and Some(false) encode 0), keeps port, token and info_hash, writes the transaction id as 4 big-endian bytes and ro = 1 iff read_only
//@ bounds: symbolic tid, port, implied_port in {None, Some(false), Some(true)}, read_only; concrete ids; unwind 8
//@ stubs: none
//@ functions: Message::into_serde_message (announce_peer arm)
#[kani::proof]
#[kani::unwind(8)]
fn c10_o1a_announce_peer_encode() {
    let tid: u32 = kani::any();
    let port: u16 = kani::any();
    let implied_port: Option<bool> = kani::any();
    let ro: bool = kani::any();
    let m = Message {
        transaction_id: tid,
        version: None,
        requester_ip: None,
        read_only: ro,
        message_type: MessageType::Request(RequestSpecific {
            requester_id: Id::from([1u8; 20]),
            request_type: RequestTypeSpecific::Put(PutRequest {
                token: Box::new([9, 8, 7, 6]),
                put_request_type: PutRequestSpecific::AnnouncePeer(AnnouncePeerRequestArguments { info_hash: Id::from([2u8; 20]), port, implied_port }),
            }),
        }),
    };
    let s = m.into_serde_message();
    assert!(s.transaction_id.len() == 4 && s.transaction_id[0] == (tid >> 24) as u8 && s.transaction_id[3] == tid as u8, "C10 transaction id encoded as 4 big-endian bytes");
    assert!(s.read_only == Some(if ro { 1 } else { 0 }), "C10 ro is 1 iff read-only");
    match &s.variant {
        internal::DHTMessageVariant::Request(internal::DHTRequestSpecific::AnnouncePeer { arguments }) => {
            assert!(arguments.port == port && arguments.info_hash == [2u8; 20] && &*arguments.token == &[9, 8, 7, 6], "C10 announce_peer fields preserved");
            let decoded = arguments.implied_port.map(|p| p != 0);
            assert!((decoded == Some(true)) == (implied_port == Some(true)), "C10.O1 implied_port survives encoding (1 iff Some(true))");
        }
        _ => assert!(false, "C10 announce_peer encodes as announce_peer"),
    }
    kani::cover!(implied_port == Some(false));
    kani::cover!(implied_port == Some(true));
    kani::cover!(implied_port.is_none());
    std::mem::forget(s);
}

//@ ob: C10.O1e
//@ tier: quick
//@ cap: 800
//@ rss: 0.6
//@ time: 41
//@ also: C05
//@ desc: error message round trip through the wire mirror, both directions: into_serde_message writes the transaction id as exactly 4 big-endian bytes for every u32 id, ro = 1 iff read-only, the error code and the requester ip (6 compact bytes) unchanged; from_serde_message of that mirror value gives back the same transaction id, read-only flag, code and ip
//@ bounds: symbolic u32 tid, read_only, i32 code, requester ip absent or any ip:port; empty description; unwind 8
//@ stubs: none
//@ functions: Message::into_serde_message (envelope + error arm), Message::from_serde_message, sockaddr_to_bytes, bytes_to_sockaddr
#[kani::proof]
#[kani::unwind(8)]
fn c10_o1e_error_round_trip() {
    let tid: u32 = kani::any();
    let ro: bool = kani::any();
    let code: i32 = kani::any();
    let has_ip: bool = kani::any();
    let ipb: [u8; 4] = kani::env();
    let port: u16 = kani::any();
    let ip = if has_ip { Some(SocketAddrV4::new(ipb.into(), port)) } else { None };
    let m = Message {
        transaction_id: tid,
        version: None,
        requester_ip: ip,
        read_only: ro,
        message_type: MessageType::Error(ErrorSpecific { code, description: String::new() }),
    };
    let s = m.into_serde_message();
    assert!(s.transaction_id.len() == 4, "C10 transaction id encoded as 4 big-endian bytes");
    assert!(s.transaction_id[0] == (tid >> 24) as u8 && s.transaction_id[1] == (tid >> 16) as u8 && s.transaction_id[2] == (tid >> 8) as u8 && s.transaction_id[3] == tid as u8, "C10 transaction id encoded as 4 big-endian bytes");
    assert!(s.read_only == Some(if ro { 1 } else { 0 }), "C10 ro is 1 iff read-only");
    match &s.ip {
        Some(b) => assert!(has_ip && b[0] == ipb[0] && b[3] == ipb[3] && b[4] == (port >> 8) as u8 && b[5] == port as u8, "C10 requester ip encoded as 6 compact bytes"),
        None => assert!(!has_ip, "C10 requester ip encoded as 6 compact bytes"),
    }
    assert!(matches!(&s.variant, internal::DHTMessageVariant::Error(e) if e.error_info.0 == code), "C10 error code preserved");
    let r = Message::from_serde_message(s);
    match &r {
        Ok(d) => {
            assert!(d.transaction_id == tid && d.read_only == ro, "C10 decode(encode(m)) == m: transaction id and ro");
            assert!(d.requester_ip == ip, "C10 decode(encode(m)) == m: requester ip");
            assert!(matches!(&d.message_type, MessageType::Error(e) if e.code == code), "C10 decode(encode(m)) == m: error code");
        }
        Err(_) => assert!(false, "C10 every message the library builds decodes"),
    }
    kani::cover!(tid < 0x1_0000);
    kani::cover!(tid >= 0x1_0000 && tid < 0x100_0000);
    kani::cover!(has_ip && port == 0);
    std::mem::forget(r);
}

//@ ob: C10.O1s
//@ tier: off
//@ cap: 2400
//@ mem: 24
//@ desc: announce_signed_peer encoding: into_serde_message keeps info_hash, k, sig and token, and the timestamp it puts into the wire mirror is an integer bencode can carry -- within the signed 64-bit range the parser reads (timestamps at or above 2^63 included: they must map into that range, not be emitted as larger integers) -- and maps back to the same u64 timestamp
//@ bounds: symbolic tid, full u64 timestamp, read_only; concrete ids, key, signature; unwind 8
//@ stubs: none
//@ functions: Message::into_serde_message (announce_signed_peer arm)
#[kani::proof]
#[kani::unwind(8)]
fn c10_o1s_announce_signed_peer_encode() {
    let tid: u32 = kani::any();
    let t: u64 = kani::any();
    let ro: bool = kani::any();
    let m = Message {
        transaction_id: tid,
        version: None,
        requester_ip: None,
        read_only: ro,
        message_type: MessageType::Request(RequestSpecific {
            requester_id: Id::from([1u8; 20]),
            request_type: RequestTypeSpecific::Put(PutRequest {
                token: Box::new([9, 8, 7, 6]),
                put_request_type: PutRequestSpecific::AnnounceSignedPeer(AnnounceSignedPeerRequestArguments { info_hash: Id::from([2u8; 20]), t, k: [3; 32], sig: [4; 64] }),
            }),
        }),
    };
    let s = m.into_serde_message();
    assert!(s.transaction_id.len() == 4 && s.transaction_id[0] == (tid >> 24) as u8 && s.transaction_id[3] == tid as u8, "C10 transaction id encoded as 4 big-endian bytes");
    match &s.variant {
        internal::DHTMessageVariant::Request(internal::DHTRequestSpecific::AnnounceSignedPeer { arguments }) => {
            assert!(arguments.info_hash == [2u8; 20] && arguments.k[0] == 3 && arguments.k[31] == 3 && arguments.sig[0] == 4 && arguments.sig[63] == 4 && &*arguments.token == &[9, 8, 7, 6], "C10 announce_signed_peer fields preserved");
            let wire = arguments.t as i128;
            assert!(wire >= i64::MIN as i128 && wire <= i64::MAX as i128, "C10 integers on the wire stay within bencode's signed 64-bit range");
            assert!(arguments.t as u64 == t, "C10 timestamp survives encoding");
        }
        _ => assert!(false, "C10 announce_signed_peer encodes as announce_signed_peer"),
    }
    kani::cover!(t >= 1u64 << 63);
    kani::cover!(t < 1u64 << 63);
    std::mem::forget(s);
}

fn roundtrip(m: Message) -> Result<Message, DecodeMessageError> {
    Message::from_serde_message(m.into_serde_message())
}

//@ ob: C10.O1b
//@ tier: off
//@ cap: 3000
//@ mem: 40
//@ alone: true
//@ desc: typed <-> wire-mirror round trip for responses: from_serde_message(into_serde_message(m)) == m for ping, find_node (0-2 nodes), get_peers (0-2 values), no_values, get_immutable, no_more_recent_value (full i64 seq) responses with symbolic tid, ids' first byte, token bytes, optional nodes
//@ bounds: one response kind chosen symbolically among the six; lists of length <= 2; token 2 bytes; value 1 byte; unwind 30
//@ stubs: std::time::Instant::now -> symbolic clock (decoded nodes get the same instant)
//@ functions: Message::into_serde_message, Message::from_serde_message, nodes4/peers codecs
#[kani::proof]
#[kani::stub(std::time::Instant::now, clock::now)]
#[kani::unwind(30)]
fn c10_o1b_response_roundtrip() {
    clock::set(0);
    let mut idb = [5u8; 20];
    idb[0] = kani::any();
    let responder_id = Id::from(idb);
    let token: Box<[u8]> = Box::new([kani::any(), kani::any()]);
    let n1 = Node::new(Id::from([7u8; 20]), SocketAddrV4::new(kani::any::<u32>().into(), kani::any()));
    let nodes_w: u8 = kani::any();
    let nodes: Option<Box<[Node]>> = match nodes_w {
        0 => None,
        1 => Some(Box::new([])),
        _ => Some(Box::new([n1.clone()])),
    };
    let kind: u8 = kani::any();
    let rs = match kind {
        0 => ResponseSpecific::Ping(PingResponseArguments { responder_id }),
        1 => ResponseSpecific::FindNode(FindNodeResponseArguments { responder_id, nodes: nodes.clone().unwrap_or(Box::new([])) }),
        2 => ResponseSpecific::GetPeers(GetPeersResponseArguments { responder_id, token, nodes, values: vec![SocketAddrV4::new(kani::any::<u32>().into(), kani::any())] }),
        3 => ResponseSpecific::NoValues(NoValuesResponseArguments { responder_id, token, nodes }),
        4 => ResponseSpecific::GetImmutable(GetImmutableResponseArguments { responder_id, token, nodes, v: Box::new([kani::any()]) }),
        _ => ResponseSpecific::NoMoreRecentValue(NoMoreRecentValueResponseArguments { responder_id, token, nodes, seq: kani::any() }),
    };
    let m = Message { transaction_id: kani::any(), version: Some([82, 83, 0, 6]), requester_ip: Some(SocketAddrV4::new(kani::any::<u32>().into(), kani::any())), read_only: kani::any(), message_type: MessageType::Response(rs) };
    let r = roundtrip(m.clone());
    match &r {
        Ok(back) => assert!(*back == m, "C10.O1 decoding an encoded message yields an equal message"),
        Err(_) => assert!(false, "C10.O1 an encoded message decodes"),
    }
    kani::cover!(kind == 2);
    kani::cover!(kind == 5);
    std::mem::forget(r);
    std::mem::forget(m);
}

static mut PARSER_CALLS: crate::verif_env::Ghost<usize> = crate::verif_env::ghost(28, 0);
static mut PARSER_LEN: crate::verif_env::Ghost<usize> = crate::verif_env::ghost(29, 0);
static mut PARSER_FIRST: crate::verif_env::Ghost<u8> = crate::verif_env::ghost(30, 0);
static mut PARSER_OK: crate::verif_env::Ghost<bool> = crate::verif_env::ghost(31, false);
/// `internal::DHTMessage::from_bytes` (the serde_bencode parser) as an oracle: records what it was
/// given and answers, per a harness-drawn verdict, a minimal error message or a parse error.
fn parser_oracle(bytes: &[u8]) -> Result<internal::DHTMessage, serde_bencode::Error> {
    unsafe {
        PARSER_CALLS.v += 1;
        PARSER_LEN.v = bytes.len();
        PARSER_FIRST.v = if bytes.is_empty() { 0 } else { bytes[0] };
        if PARSER_OK.v {
            Ok(internal::DHTMessage {
                transaction_id: vec![b'a', b'a'],
                version: None,
                ip: None,
                read_only: None,
                variant: internal::DHTMessageVariant::Error(internal::DHTErrorSpecific { error_info: (201, String::new()) }),
            })
        } else {
            Err(serde_bencode::Error::EndOfStream)
        }
    }
}

static mut CONVERT_CALLS: crate::verif_env::Ghost<usize> = crate::verif_env::ghost(32, 0);
/// `Message::from_serde_message` as a probe in C10.O3 (the conversion itself is C05.O1* / C10.O1*)
fn convert_probe(msg: internal::DHTMessage) -> Result<Message, DecodeMessageError> {
    unsafe { CONVERT_CALLS.v += 1 };
    let tid = if msg.transaction_id.len() == 2 { ((msg.transaction_id[0] as u32) << 8) | msg.transaction_id[1] as u32 } else { 0 };
    std::mem::forget(msg);
    Ok(Message { transaction_id: tid, version: None, requester_ip: None, read_only: false, message_type: MessageType::Error(ErrorSpecific { code: 201, description: String::new() }) })
}

//@ ob: C10.O3
//@ rss: 0.6
//@ time: 68
//@ tier: quick
//@ cap: 800
//@ also: C05
//@ desc: Message::from_bytes glue around the bencode parser: total on every byte string of length 0..=64; a datagram is refused before parsing only if it does not start with 'd' or is shorter than the shortest well-formed KRPC message (25 bytes: an error with empty description and a 2-byte transaction id, d1:eli0e0:e1:t2:aa1:y1:ee); every other datagram is handed unchanged to the parser exactly once, a parser error becomes a decode error (no panic), and a parsed message is handed to from_serde_message exactly once (whose totality and field mapping are C05.O1a-g / C10.O1*)
//@ bounds: datagram length symbolic 0..=64, contents symbolic; parser verdict symbolic (oracle); unwind 8
//@ outside: the serde_bencode byte parser itself (not executable symbolically: DESIGN.md section 9)
//@ stubs: internal::DHTMessage::from_bytes (serde_bencode) -> oracle recording its input, answering a minimal error message or a parse error; Message::from_serde_message -> probe (call counted, transaction id passed through)
//@ functions: Message::from_bytes
#[kani::proof]
#[kani::stub(internal::DHTMessage::from_bytes, parser_oracle)]
#[kani::stub(Message::from_serde_message, convert_probe)]
#[kani::unwind(8)]
fn c10_o3_from_bytes_gate() {
    let buf: [u8; 64] = kani::env();
    let len: usize = kani::any();
    kani::assume(len <= 64);
    let ok: bool = kani::any();
    unsafe { PARSER_OK.v = ok };
    let r = Message::from_bytes(&buf[..len]);
    let calls = unsafe { PARSER_CALLS.v };
    if len >= 25 && buf[0] == b'd' {
        assert!(calls == 1, "C10.O3 a datagram as long as the shortest KRPC message is handed to the parser");
        assert!(unsafe { PARSER_LEN.v == len && PARSER_FIRST.v == buf[0] }, "C10.O3 the parser sees the datagram unchanged");
        assert!(r.is_ok() == ok, "C10.O3 a parsed message decodes, a parser error is a decode error");
        assert!(unsafe { CONVERT_CALLS.v } == ok as usize, "C10.O3 a parsed message is converted exactly once");
    }
    if calls == 0 {
        assert!(r.is_err(), "C10.O3 nothing is decoded without parsing");
        assert!(len < 25 || buf[0] != b'd', "C10.O3 only too-short or non-dictionary datagrams are refused before parsing");
    }
    if let Ok(m) = &r {
        assert!(m.transaction_id == 0x6161 && matches!(&m.message_type, MessageType::Error(e) if e.code == 201), "C10.O3 the parsed message is what is returned");
    }
    kani::cover!(r.is_ok() && len == 25);
    kani::cover!(calls == 1 && r.is_err());
    kani::cover!(calls == 0 && len == 64);
    kani::cover!(calls == 0 && len == 0);
    std::mem::forget(r);
}

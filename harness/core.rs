//! C17.O1 (local write-conflict table), C18 (modes), C14.O2/O3 (maintenance), C06.O3b,
//! C20.O1 (statistics pairing) — `Core` methods.
//! Private names used: `Core` pub fields, `CachedIterativeQuery { .. }`, `supports_signed_peers`.
//! Stand-ins: `tracing`, `lru` (fixed-slot), `vcoll`.
//! @needs: socket routing_table put_query iterative_query
use super::*;
#[allow(unused_imports)]
use crate::verif_env::k as kani;
use crate::common::{
    AnnouncePeerRequestArguments, FindNodeRequestArguments, GetPeersRequestArguments, GetValueRequestArguments,
    Message, MessageType, PingResponseArguments, PutImmutableRequestArguments, PutRequest, RequestSpecific, ResponseSpecific,
};
use crate::verif_env::{clock, cut, cut_reached, rnd};
use std::net::SocketAddrV4;

const ME: [u8; 20] = [1u8; 20];
const T5: [u8; 20] = [5u8; 20];
const T6: [u8; 20] = [6u8; 20];

pub(crate) fn new_core(server_mode: bool, bootstrap: Vec<SocketAddrV4>) -> Core {
    let secrets: [u8; 40] = kani::env();
    rnd::preload(&secrets);
    Core::new(
        Id::from(ME),
        bootstrap,
        server_mode,
        ServerSettings { max_info_hashes: 1, max_peers_per_info_hash: 1, max_immutable_values: 1, max_mutable_values: 1, ..Default::default() },
    )
}

fn pm(target: [u8; 20], seq: i64, sig0: u8, cas: Option<i64>) -> PutRequestSpecific {
    let mut sig = [0u8; 64];
    sig[0] = sig0;
    PutRequestSpecific::PutMutable(PutMutableRequestArguments { target: Id::from(target), v: Box::new([]), k: [0; 32], seq, sig, salt: None, cas })
}

//@ ob: C17.O1
//@ also: C06
//@ rss: 6.3
//@ time: 174
//@ tier: quick
//@ cap: 800
//@ standins: tracing lru vcoll
//@ desc: check_concurrency_errors with one in-flight put_mutable for the same target: identical signature => Ok (both calls share the in-flight write); lower seq => NotMostRecent; different item without cas => ConflictRisk; cas equal to the in-flight seq => Ok and the in-flight write is superseded (removed); any other cas => CasFailed; the in-flight write is removed in no other row
//@ bounds: full i64 seq1/seq2/cas; signatures differ or not via one symbolic byte; unwind 66 (64-byte signature compare)
//@ stubs: Instant::now -> symbolic clock; getrandom::fill -> preloaded bytes
//@ functions: Core::check_concurrency_errors
#[kani::proof]
#[kani::stub(std::time::Instant::now, clock::now)]
#[kani::stub(getrandom::fill, rnd::fill)]
#[kani::unwind(66)]
fn c17_o1_conflict_table() {
    clock::set(0);
    let mut core = new_core(false, vec![]);
    let s1: i64 = kani::any();
    let g1: u8 = kani::any();
    core.put_queries.insert(Id::from(T5), PutQuery::new(pm(T5, s1, g1, None), None));
    let s2: i64 = kani::any();
    let g2: u8 = kani::any();
    let cas: Option<i64> = kani::any();
    let r = core.check_concurrency_errors(&pm(T5, s2, g2, cas));
    let still = core.put_queries.contains_key(&Id::from(T5));
    if g1 == g2 {
        assert!(r.is_ok() && still, "C17.O1 identical item: accepted, in-flight write kept");
    } else if s2 < s1 {
        assert!(matches!(r, Err(ConcurrencyError::NotMostRecent)) && still, "C17.O1 lower seq fails with NotMostRecent");
    } else if cas.is_none() {
        assert!(matches!(r, Err(ConcurrencyError::ConflictRisk)) && still, "C17.O1 different item without cas fails with ConflictRisk");
    } else if cas == Some(s1) {
        assert!(r.is_ok() && !still, "C17.O1 cas equal to the in-flight seq supersedes the in-flight write");
    } else {
        assert!(matches!(r, Err(ConcurrencyError::CasFailed)) && still, "C17.O1 any other cas fails with CasFailed");
    }
    kani::cover!(g1 != g2 && s2 >= s1 && cas == Some(s1));
    kani::cover!(g1 != g2 && s2 == s1 && cas.is_none());
    kani::cover!(g1 == g2 && s2 < s1);
    std::mem::forget(r);
    std::mem::forget(core);
}

//@ ob: C17.O1b
//@ rss: 5.6
//@ time: 172
//@ tier: quick
//@ cap: 800
//@ standins: tracing lru vcoll
//@ desc: no conflict is reported when the in-flight put is for a different target, when the in-flight put is not a put_mutable, or when the new request is not a put_mutable; nothing is removed
//@ bounds: three symbolic scenario bits; symbolic seqs/cas; unwind 66
//@ stubs: Instant::now; getrandom::fill
//@ functions: Core::check_concurrency_errors
#[kani::proof]
#[kani::stub(std::time::Instant::now, clock::now)]
#[kani::stub(getrandom::fill, rnd::fill)]
#[kani::unwind(66)]
fn c17_o1b_no_conflict_cases() {
    clock::set(0);
    let mut core = new_core(false, vec![]);
    let which: u8 = kani::any();
    kani::assume(which < 3);
    let inflight = if which == 1 {
        PutRequestSpecific::PutImmutable(PutImmutableRequestArguments { target: Id::from(T5), v: Box::new([1]) })
    } else {
        pm(T5, kani::any(), 1, None)
    };
    core.put_queries.insert(Id::from(T5), PutQuery::new(inflight, None));
    let new_req = match which {
        0 => pm(T6, kani::any(), 2, kani::any()),
        1 => pm(T5, kani::any(), 2, kani::any()),
        _ => PutRequestSpecific::AnnouncePeer(AnnouncePeerRequestArguments { info_hash: Id::from(T5), port: 1, implied_port: None }),
    };
    let r = core.check_concurrency_errors(&new_req);
    assert!(r.is_ok(), "C17.O1b no conflict across targets or put kinds");
    assert!(core.put_queries.contains_key(&Id::from(T5)), "C17.O1b nothing removed");
    kani::cover!(which == 0);
    kani::cover!(which == 2);
    std::mem::forget(core);
}

/// `ClosestNodes::dht_size_estimate` (u128 -> f64 conversions and f64 arithmetic over up to 20
/// nodes) cut to a constant where the obligation is about the integer bookkeeping around it.
pub(crate) fn dse_const(_c: &crate::common::ClosestNodes) -> f64 {
    1.0
}

/// `Core::cache_iterative_query` skipped where the obligation is not about the lookup cache or
/// its statistics (those are C20.O1's subject)
pub(crate) fn cache_skip(_c: &mut Core, _q: &IterativeQuery, _n: &[Node]) {}

fn server_cut(_s: &mut Server, _rt: &RoutingTable, _srt: &RoutingTable, _from: SocketAddrV4, _r: RequestSpecific) -> Option<MessageType> {
    cut();
    None
}
static mut SERVER_CALLS: crate::verif_env::Ghost<usize> = crate::verif_env::ghost(4, 0);
fn server_probe(_s: &mut Server, rt: &RoutingTable, _srt: &RoutingTable, _from: SocketAddrV4, _r: RequestSpecific) -> Option<MessageType> {
    unsafe { SERVER_CALLS.v += 1 };
    Some(MessageType::Response(ResponseSpecific::Ping(PingResponseArguments { responder_id: *rt.id() })))
}

fn any_request(kind: u8, target: Id) -> RequestSpecific {
    let request_type = match kind {
        0 => RequestTypeSpecific::Ping,
        1 => RequestTypeSpecific::FindNode(FindNodeRequestArguments { target }),
        2 => RequestTypeSpecific::GetPeers(GetPeersRequestArguments { info_hash: target }),
        3 => RequestTypeSpecific::GetValue(GetValueRequestArguments { target, seq: None, salt: None }),
        _ => RequestTypeSpecific::Put(PutRequest { token: Box::new([1, 2, 3, 4]), put_request_type: PutRequestSpecific::AnnouncePeer(AnnouncePeerRequestArguments { info_hash: target, port: 1, implied_port: None }) }),
    };
    RequestSpecific { requester_id: Id::from([2u8; 20]), request_type }
}

//@ ob: C18.O1
//@ rss: 3.6
//@ time: 133
//@ tier: quick
//@ cap: 800
//@ standins: tracing lru vcoll
//@ desc: a client-mode node never replies to any request and never hands it to the storage server, never adds the requester to a routing table; a server-mode node hands every request to the server exactly once and relays its reply
//@ bounds: request kind symbolic among ping / find_node / get_peers / get / announce_peer; requester read_only flag and version symbolic; server_mode symbolic; bootstrap list non-empty; unwind 26
//@ stubs: Server::handle_request -> probe counting calls and answering a ping-shaped reply (its own behaviour is C03/C04); Instant::now; getrandom::fill
//@ functions: Core::handle_request, Core::maybe_add_node_from_request, Core::does_verify_our_new_public_address_with_self_ping
#[kani::proof]
#[kani::stub(crate::core::server::Server::handle_request, server_probe)]
#[kani::stub(std::time::Instant::now, clock::now)]
#[kani::stub(getrandom::fill, rnd::fill)]
#[kani::unwind(26)]
fn c18_o1_client_mode_silent() {
    clock::set(0);
    let mode: bool = kani::any();
    let mut core = new_core(mode, vec![SocketAddrV4::new([10, 9, 9, 9].into(), 1)]);
    let kind: u8 = kani::any();
    kani::assume(kind < 5);
    let from = SocketAddrV4::new([10, 0, 0, 7].into(), 6881);
    let ro: bool = kani::any();
    let version: Option<[u8; 4]> = if kani::any() { Some(kani::env()) } else { None };
    let (reply, repopulate) = core.handle_request(from, ro, version, any_request(kind, Id::from(T5)));
    // (native replay: no stubs there, the real server runs -- the probe's call count is replaced by
    // what the reply shows)
    #[cfg(not(verif_replay))]
    let calls = unsafe { SERVER_CALLS.v };
    #[cfg(verif_replay)]
    let calls = reply.is_some() as usize;
    if !mode {
        assert!(reply.is_none(), "C18.O1 client mode never replies");
        assert!(calls == 0, "C18.O1 client mode never stores or serves");
        assert!(core.routing_table.is_empty() && core.signed_peers_routing_table.is_empty(), "C18.O2 client mode never learns nodes from requests");
    } else {
        assert!(calls == 1 && reply.is_some(), "C18.O1 server mode answers through the server");
    }
    assert!(!repopulate, "C18.O5 no re-keying without a confirmed address");
    kani::cover!(!mode && kind == 1 && !ro);
    kani::cover!(mode && kind == 4);
    std::mem::forget(reply);
    std::mem::forget(core);
}

//@ ob: C18.O2
//@ tier: thorough
//@ cap: 2400
//@ rss: 8
//@ time: 649
//@ mem: 28
//@ standins: tracing lru vcoll
//@ desc: a request adds its sender to a routing table only if the node is in server mode, the requester is not read-only and the request is find_node: into the main table only when the node has no bootstrap list (first node of a network), into the signed-peers table only when the requester's version supports signed peers ('RS' >= 00 06); read-only requesters are never inserted
//@ bounds: server_mode, read_only, bootstrap-empty, request kind (5), version (None or 4 symbolic bytes) all symbolic; requester id concrete and != own id; unwind 26
//@ stubs: Server::handle_request -> probe; Instant::now; getrandom::fill
//@ functions: Core::handle_request, Core::maybe_add_node_from_request, supports_signed_peers, RoutingTable::add
#[kani::proof]
#[kani::stub(crate::core::server::Server::handle_request, server_probe)]
#[kani::stub(std::time::Instant::now, clock::now)]
#[kani::stub(getrandom::fill, rnd::fill)]
#[kani::unwind(26)]
fn c18_o2_learning_from_requests() {
    clock::set(0);
    let mode: bool = kani::any();
    let empty_bootstrap: bool = kani::any();
    let bootstrap = if empty_bootstrap { vec![] } else { vec![SocketAddrV4::new([10, 9, 9, 9].into(), 1)] };
    let mut core = new_core(mode, bootstrap);
    let kind: u8 = kani::any();
    kani::assume(kind < 5);
    let from = SocketAddrV4::new([10, 0, 0, 7].into(), 6881);
    let ro: bool = kani::any();
    let version: Option<[u8; 4]> = if kani::any() { Some(kani::env()) } else { None };
    let supports = match version {
        Some(v) => v[0] == b'R' && v[1] == b'S' && (v[2] > 0 || (v[2] == 0 && v[3] >= 6)),
        None => false,
    };
    let _ = core.handle_request(from, ro, version, any_request(kind, Id::from(T5)));
    let eligible = mode && !ro && kind == 1;
    assert!(core.routing_table.size() == (eligible && empty_bootstrap) as usize, "C18.O2 sender added to the main table only for find_node from a non-read-only requester on a bootstrap-less server");
    assert!(core.signed_peers_routing_table.size() == (eligible && supports) as usize, "C18.O2 sender added to the signed-peers table only when its version supports it");
    kani::cover!(eligible && empty_bootstrap && supports);
    kani::cover!(mode && ro && kind == 1);
    kani::cover!(eligible && !supports && version.is_some());
    std::mem::forget(core);
}

//@ ob: C18.O5a
//@ tier: off
//@ cap: 2400
//@ unwindset_raw: memcmp.0:22
//@ standins: tracing lru vcoll
//@ also: C14 C20
//@ desc: adaptive chain, step 1: when a finished lookup's best-voted address differs from the known public address (or none is known) cleanup_done_queries returns it for a confirming self-ping, records it and sets firewalled; when it equals the known address nothing is returned and the flags are unchanged; without votes nothing happens; the finished lookup leaves the active set and does not restart the 5-minute ping / 15-minute refresh timers (a find_node for an arbitrary target is not a table refresh)
//@ bounds: one finished lookup with 0 or 1 voted address (symbolic), public_address None / Some(symbolic), firewalled symbolic; unwind 4 (containers hold at most one entry), memcmp 22
//@ stubs: Core::cache_iterative_query -> skipped (lookup cache and statistics are C20.O1); Instant::now; getrandom::fill
//@ functions: Core::cleanup_done_queries, Core::update_address_votes_from_iterative_query, IterativeQuery::best_address
#[kani::proof]
#[kani::stub(std::time::Instant::now, clock::now)]
#[kani::stub(getrandom::fill, rnd::fill)]
#[kani::stub(crate::core::Core::cache_iterative_query, cache_skip)]
#[kani::unwind(4)]
fn c18_o5a_address_vote() {
    clock::set(0);
    let mut core = new_core(false, vec![]);
    let target = Id::from(T5);
    let mut q = IterativeQuery::new(Id::from(ME), target, GetRequestSpecific::FindNode(FindNodeRequestArguments { target }));
    let voted = SocketAddrV4::new(kani::any::<u32>().into(), kani::any());
    let has_vote: bool = kani::any();
    if has_vote {
        q.add_address_vote(voted);
    }
    core.iterative_queries.insert(target, q);
    let before: Option<SocketAddrV4> = if kani::any() { Some(SocketAddrV4::new(kani::any::<u32>().into(), kani::any())) } else { None };
    let fw: bool = kani::any();
    core.public_address = before;
    core.firewalled = fw;
    let done: [(Id, Box<[Node]>); 1] = [(target, Box::new([]))];
    clock::set(600);
    let (ping_due, refresh_due) = (core.should_ping_table(), core.should_refresh_table());
    let out = core.cleanup_done_queries(&done, &[]);
    assert!(!core.iterative_queries.contains_key(&target), "C20.O4 finished lookup removed");
    clock::set(901);
    assert!(ping_due && !refresh_due && core.should_ping_table() && core.should_refresh_table(), "C14.O3 a finished lookup does not restart the maintenance timers");
    if has_vote && before != Some(voted) {
        assert!(out == Some(voted), "C18.O5a a new voted address is returned for a confirming self-ping");
        assert!(core.firewalled && core.public_address == Some(voted), "C18.O5a new address recorded, node considered firewalled until confirmed");
    } else {
        assert!(out.is_none(), "C18.O5a no self-ping without a new address");
        assert!(core.firewalled == fw && core.public_address == before, "C18.O5a flags unchanged without a new address");
    }
    kani::cover!(has_vote && before.is_some() && before != Some(voted));
    kani::cover!(has_vote && before == Some(voted));
    kani::cover!(has_vote && before.is_none());
    std::mem::forget(done);
    std::mem::forget(core);
}

//@ ob: C18.O5v
//@ tier: quick
//@ cap: 800
//@ rss: 1.0
//@ time: 23
//@ unwindset_raw: memcmp.0:22
//@ standins: tracing lru vcoll
//@ desc: adaptive chain, step 1 (the decision itself, on a lookup object that is not consumed): when a finished lookup's best-voted address (ip AND port) differs from the recorded public address, or none is recorded, update_address_votes_from_iterative_query returns it for a confirming self-ping, records it and sets firewalled; when it equals the recorded address nothing is returned and firewalled / public_address are unchanged; without votes nothing changes
//@ bounds: one lookup with 0 or 1 voted address (symbolic ip and port); public_address None / Some(symbolic ip and port; same ip with another port included); firewalled symbolic; unwind 4
//@ stubs: Instant::now; getrandom::fill
//@ functions: Core::update_address_votes_from_iterative_query, IterativeQuery::{add_address_vote,best_address}
#[kani::proof]
#[kani::stub(std::time::Instant::now, clock::now)]
#[kani::stub(getrandom::fill, rnd::fill)]
#[kani::unwind(4)]
fn c18_o5v_address_vote_decision() {
    clock::set(0);
    let mut core = new_core(false, vec![]);
    let target = Id::from(T5);
    let mut q = IterativeQuery::new(Id::from(ME), target, GetRequestSpecific::FindNode(FindNodeRequestArguments { target }));
    let vip: u32 = kani::any();
    let vport: u16 = kani::any();
    let voted = SocketAddrV4::new(vip.into(), vport);
    let has_vote: bool = kani::any();
    if has_vote {
        q.add_address_vote(voted);
    }
    let has_before: bool = kani::any();
    let same_ip: bool = kani::any();
    let bip: u32 = kani::any();
    let bport: u16 = kani::any();
    let before: Option<SocketAddrV4> = if has_before { Some(SocketAddrV4::new((if same_ip { vip } else { bip }).into(), bport)) } else { None };
    let fw: bool = kani::any();
    core.public_address = before;
    core.firewalled = fw;
    let out = core.update_address_votes_from_iterative_query(&q);
    if has_vote && before != Some(voted) {
        assert!(out == Some(voted), "C18.O5a a new voted address is returned for a confirming self-ping");
        assert!(core.firewalled && core.public_address == Some(voted), "C18.O5a new address recorded, node considered firewalled until confirmed");
    } else {
        assert!(out.is_none(), "C18.O5a no self-ping without a new address");
        assert!(core.firewalled == fw && core.public_address == before, "C18.O5a flags unchanged without a new address");
    }
    kani::cover!(has_vote && has_before && same_ip && bport != vport);
    kani::cover!(has_vote && before == Some(voted));
    kani::cover!(has_vote && !has_before);
    kani::cover!(!has_vote);
    std::mem::forget(q);
    std::mem::forget(core);
}

//@ ob: C18.O5b
//@ tier: quick
//@ cap: 800
//@ rss: 2.0
//@ time: 45
//@ standins: tracing lru vcoll
//@ desc: adaptive chain, step 2: a ping request arriving from exactly the recorded public address clears firewalled (and re-keys both tables with a BEP42 id iff the current id is not valid for that IP); any other request, or a ping from any other address, leaves firewalled unchanged (NAT case: the self-ping never arrives)
//@ bounds: public address from {10.0.0.1:6881 (private), 8.8.8.8:6881 (public)}; sender symbolic; request kind ping / find_node; requester read-only flag symbolic (a client-mode node's own self-ping is read-only); unwind 26, RoutingTableIterator::next 163 (bucket indices 0..=160)
//@ stubs: Server::handle_request -> flagged cut (client mode); Instant::now; getrandom::fill (BEP42 id draw)
//@ functions: Core::handle_request, Core::does_verify_our_new_public_address_with_self_ping, RoutingTable::reset_id, Id::from_ipv4
//@ unwindset: RoutingTableIterator = 163
#[kani::proof]
#[kani::stub(crate::core::server::Server::handle_request, server_cut)]
#[kani::stub(std::time::Instant::now, clock::now)]
#[kani::stub(getrandom::fill, rnd::fill)]
#[kani::unwind(26)]
fn c18_o5b_self_ping() {
    clock::set(0);
    let mut core = new_core(false, vec![]);
    let rnd21: [u8; 21] = kani::env();
    rnd::preload(&rnd21);
    let public: bool = kani::any();
    let me = if public { SocketAddrV4::new([8, 8, 8, 8].into(), 6881) } else { SocketAddrV4::new([10, 0, 0, 1].into(), 6881) };
    core.public_address = Some(me);
    core.firewalled = true;
    let from = SocketAddrV4::new(kani::any::<u32>().into(), kani::any());
    let is_ping: bool = kani::any();
    let old_id = *core.routing_table.id();
    let valid = old_id.is_valid_for_ip(*me.ip());
    // the self-ping of a node that is still in client mode is itself flagged read-only
    let ro: bool = kani::any();
    let (reply, repopulate) = core.handle_request(from, ro, None, any_request(if is_ping { 0 } else { 1 }, Id::from(T5)));
    let confirmed = is_ping && from == me;
    assert!(reply.is_none(), "C18.O1 client mode never replies");
    assert!(core.firewalled == !confirmed, "C18.O5b firewalled cleared exactly by a ping from the recorded public address");
    assert!(repopulate == (confirmed && !valid), "C18.O5b tables re-keyed iff the id is not valid for the confirmed IP");
    if repopulate {
        let id = *core.routing_table.id();
        assert!(id.is_valid_for_ip(*me.ip()) && *core.signed_peers_routing_table.id() == id, "C18.O5b new id is BEP42-valid for the confirmed address");
    } else {
        assert!(*core.routing_table.id() == old_id, "C18.O5b id unchanged otherwise");
    }
    assert!(!cut_reached(), "CUT: server reached in client mode or random bytes exhausted");
    kani::cover!(confirmed && public);
    kani::cover!(confirmed && !public && ro);
    kani::cover!(is_ping && from.ip() == me.ip() && from.port() != me.port());
    std::mem::forget(reply);
    std::mem::forget(core);
}

//@ ob: C14.O3
//@ rss: 0.9
//@ time: 55
//@ tier: quick
//@ cap: 800
//@ standins: tracing lru vcoll
//@ desc: maintenance timers: should_ping_table() <=> more than 300 s since the last ping round; should_refresh_table() <=> more than 900 s since the last refresh; update_* reset them
//@ bounds: symbolic whole-second instants; unwind 26
//@ stubs: Instant::now; getrandom::fill
//@ functions: Core::{should_ping_table, should_refresh_table, update_last_table_ping, update_last_table_refresh}
#[kani::proof]
#[kani::stub(std::time::Instant::now, clock::now)]
#[kani::stub(getrandom::fill, rnd::fill)]
#[kani::unwind(26)]
fn c14_o3_maintenance_timers() {
    let t0: u64 = kani::any();
    let dt: u64 = kani::any();
    kani::assume(t0 < (1 << 30) && dt < (1 << 30));
    clock::set(t0);
    let mut core = new_core(false, Vec::with_capacity(1));
    clock::set(t0 + dt);
    assert!(core.should_ping_table() == (dt > 300), "C14.O3 ping round every 5 minutes");
    assert!(core.should_refresh_table() == (dt > 900), "C14.O3 refresh every 15 minutes");
    core.update_last_table_ping();
    core.update_last_table_refresh();
    assert!(!core.should_ping_table() && !core.should_refresh_table(), "C14.O3 timers reset");
    kani::cover!(dt == 301);
    kani::cover!(dt == 900);
    std::mem::forget(core);
}

//@ ob: C14.O2
//@ tier: off
//@ cap: 3000
//@ standins: tracing lru vcoll
//@ desc: one ping round: check_nodes_to_ping_and_remove_stale_nodes removes exactly the entries not heard from for more than 900 s and returns exactly the addresses of the kept entries not heard from for more than 10 s (so a peer that answered less than 15 minutes ago survives every round and a silent one is gone at the first round after 15 minutes)
//@ bounds: main table with 3 entries of symbolic ages (<= 2000 s each) in one bucket, optionally preceded by an emptied nearer bucket (as remove() leaves), signed-peers table empty; unwind 26, RoutingTableIterator::next 163
//@ stubs: Instant::now; getrandom::fill
//@ functions: Core::check_nodes_to_ping_and_remove_stale_nodes, Node::{is_stale,should_ping}, RoutingTable::{nodes,remove}, RoutingTableIterator::next
//@ unwindset: RoutingTableIterator = 163
#[kani::proof]
#[kani::stub(std::time::Instant::now, clock::now)]
#[kani::stub(getrandom::fill, rnd::fill)]
#[kani::unwind(26)]
fn c14_o2_ping_round() {
    clock::set(0);
    let mut core = new_core(false, vec![]);
    let mut ages = [0u64; 3];
    let mut seen = [0u64; 3];
    let mut t = 0u64;
    let mut ns: Vec<Node> = Vec::with_capacity(3);
    let mut i = 0u8;
    while i < 3 {
        let dt: u64 = kani::any();
        kani::assume(dt <= 2000);
        t += dt;
        clock::set(t);
        seen[i as usize] = t;
        let mut id = [0u8; 20];
        id[0] = 0x80;
        id[1] = i + 1;
        ns.push(Node::new(Id::from(id), SocketAddrV4::new([10, 0, 1, i].into(), 6881 + i as u16)));
        i += 1;
    }
    let dt: u64 = kani::any();
    kani::assume(dt <= 2000);
    let now = t + dt;
    clock::set(now);
    let gap: bool = kani::any();
    core.routing_table = if gap {
        crate::common::kani_h_routing_table::table_with_emptied_bucket(Id::from([0u8; 20]), ns)
    } else {
        crate::common::kani_h_routing_table::table_with(Id::from([0u8; 20]), ns)
    };
    let to_ping = core.check_nodes_to_ping_and_remove_stale_nodes();
    let mut kept = 0usize;
    let mut pinged = 0usize;
    let mut i = 0usize;
    while i < 3 {
        ages[i] = now - seen[i];
        let addr = SocketAddrV4::new([10, 0, 1, i as u8].into(), 6881 + i as u16);
        let present = core.routing_table.nodes().any(|n| n.address() == addr);
        let in_ping = to_ping.iter().any(|a| *a == addr);
        assert!(present == (ages[i] <= 900), "C14.O2 exactly the entries silent for more than 15 minutes are removed");
        assert!(in_ping == (ages[i] <= 900 && ages[i] > 10), "C14.O2 exactly the kept entries silent for more than 10 s are pinged");
        kept += present as usize;
        pinged += in_ping as usize;
        i += 1;
    }
    assert!(core.routing_table.size() == kept && to_ping.len() == pinged, "C14.O2 nothing else removed or pinged");
    kani::cover!(kept == 2 && pinged == 1);
    kani::cover!(kept == 0);
    kani::cover!(kept == 3 && pinged == 0);
    kani::cover!(gap && kept == 1);
    std::mem::forget(to_ping);
    std::mem::forget(core);
}

//@ ob: C06.O3b
//@ tier: off
//@ cap: 2400
//@ standins: tracing lru vcoll
//@ also: C08
//@ desc: the cached closest nodes a put may start from: get_cached_closest_nodes(t) = Some(ns) implies some node of ns carries a write token received at most 300 s ago (otherwise PutQuery::start would have nothing to send and Actor::put must run a lookup instead)
//@ bounds: one cached lookup with 2 nodes, each with symbolic token presence and symbolic age (<= 1000 s); lookup of the cached or another target; unwind 26
//@ stubs: Instant::now; getrandom::fill
//@ functions: Core::get_cached_closest_nodes, Node::valid_token
#[kani::proof]
#[kani::stub(std::time::Instant::now, clock::now)]
#[kani::stub(getrandom::fill, rnd::fill)]
#[kani::unwind(26)]
fn c06_o3b_cached_nodes_usable() {
    clock::set(0);
    let mut core = new_core(false, vec![]);
    let has: [bool; 2] = [kani::any(), kani::any()];
    let at: [u64; 2] = [kani::any(), kani::any()];
    kani::assume(at[0] <= 1000 && at[1] <= 1000);
    let now: u64 = kani::any();
    kani::assume(now <= 1000 && now >= at[0] && now >= at[1]);
    let mut ns: Vec<Node> = Vec::with_capacity(2);
    let mut i = 0usize;
    while i < 2 {
        clock::set(at[i]);
        let mut id = [0u8; 20];
        id[0] = 0x40 + i as u8;
        let addr = SocketAddrV4::new([10, 0, 2, i as u8].into(), 7000);
        ns.push(if has[i] { Node::new_with_token(Id::from(id), addr, Box::new([1, 2, 3, 4])) } else { Node::new(Id::from(id), addr) });
        i += 1;
    }
    clock::set(now);
    core.cached_iterative_queries.put(
        Id::from(T5),
        CachedIterativeQuery {
            closest_responding_nodes: ns.into_boxed_slice(),
            dht_size_estimate: 1.0,
            responders_dht_size_estimate: 1.0,
            subnets: 2,
            request_type: RequestTypeSpecific::FindNode(FindNodeRequestArguments { target: Id::from(T5) }),
        },
    );
    let same: bool = kani::any();
    let r = core.get_cached_closest_nodes(&Id::from(if same { T5 } else { T6 }));
    let usable0 = has[0] && now - at[0] <= 300;
    let usable1 = has[1] && now - at[1] <= 300;
    if let Some(nodes) = &r {
        assert!(same && nodes.len() == 2, "C06.O3b cached nodes of the requested target");
        assert!(usable0 || usable1, "C06.O3b cached closest nodes are used only if one of them carries a fresh write token");
    } else if same {
        assert!(!usable0 && !usable1, "C06.O3b a usable cache entry is returned");
    }
    kani::cover!(r.is_some());
    kani::cover!(r.is_none() && same && (has[0] || has[1]));
    kani::cover!(r.is_none() && same && !has[0] && !has[1] && now <= 300);
    std::mem::forget(r);
    std::mem::forget(core);
}

impl Core {
    /// put a finished lookup's closest responding nodes into the cache (what
    /// `cache_iterative_query` stores), without touching the statistics
    pub(crate) fn kani_cache(&mut self, target: Id, nodes: Vec<Node>) {
        self.cached_iterative_queries.put(
            target,
            CachedIterativeQuery {
                closest_responding_nodes: nodes.into_boxed_slice(),
                dht_size_estimate: 1.0,
                responders_dht_size_estimate: 1.0,
                subnets: 1,
                request_type: RequestTypeSpecific::FindNode(FindNodeRequestArguments { target }),
            },
        );
    }
}

fn lookup_of(kind: u8, target: Id, with_responder: bool) -> IterativeQuery {
    let req = match kind {
        0 => GetRequestSpecific::FindNode(FindNodeRequestArguments { target }),
        1 => GetRequestSpecific::GetPeers(GetPeersRequestArguments { info_hash: target }),
        2 => GetRequestSpecific::GetSignedPeers(GetPeersRequestArguments { info_hash: target }),
        _ => GetRequestSpecific::GetValue(GetValueRequestArguments { target, seq: None, salt: None }),
    };
    let mut q = IterativeQuery::new(Id::from(ME), target, req);
    let mut id = [0u8; 20];
    id[0] = 0x33;
    q.add_candidate(Node::new(Id::from(id), SocketAddrV4::new([10, 0, 3, 1].into(), 6881)));
    if with_responder && kind != 0 {
        q.add_responding_node(Node::new_with_token(Id::from(id), SocketAddrV4::new([10, 0, 3, 1].into(), 6881), Box::new([1, 2, 3, 4])));
    }
    q
}

/// expected (main.dht_count, main.responders_count, signed.dht_count, signed.responders_count)
fn expected_counts(kinds: &[Option<u8>; 2]) -> (usize, usize, usize, usize) {
    let (mut a, mut b, mut c, mut d) = (0, 0, 0, 0);
    let mut i = 0;
    while i < 2 {
        if let Some(k) = kinds[i] {
            if k == 2 {
                c += 1;
                d += 1;
            } else {
                a += 1;
                if k != 0 {
                    b += 1;
                }
            }
        }
        i += 1;
    }
    (a, b, c, d)
}

/// `RequestTypeSpecific::clone` for the lookup kinds (no boxed slices): the derived clone of an
/// enum that lives on the heap is executed for every variant, the put variant's boxed token and
/// value included (symbolic-size allocations); a put variant or a salted get here is a flagged cut
fn request_type_clone_lookup(r: &RequestTypeSpecific) -> RequestTypeSpecific {
    match r {
        RequestTypeSpecific::Ping => RequestTypeSpecific::Ping,
        RequestTypeSpecific::FindNode(a) => RequestTypeSpecific::FindNode(FindNodeRequestArguments { target: a.target }),
        RequestTypeSpecific::GetPeers(a) => RequestTypeSpecific::GetPeers(GetPeersRequestArguments { info_hash: a.info_hash }),
        RequestTypeSpecific::GetSignedPeers(a) => RequestTypeSpecific::GetSignedPeers(GetPeersRequestArguments { info_hash: a.info_hash }),
        RequestTypeSpecific::GetValue(a) if a.salt.is_none() => RequestTypeSpecific::GetValue(GetValueRequestArguments { target: a.target, seq: a.seq, salt: None }),
        _ => {
            cut();
            RequestTypeSpecific::Ping
        }
    }
}

fn stats_pairing(fix: Option<(u8, u8)>) {
    clock::set(0);
    let mut core = new_core(false, vec![]);
    // lookup kinds: fixed per instance (a symbolic request kind makes every move and clone of the
    // request enum a case split over all variants) or symbolic (the all-in-one harness)
    let (k1, k2): (u8, u8) = match fix {
        Some(p) => p,
        None => {
            let a: u8 = kani::any();
            let b: u8 = kani::any();
            kani::assume(a < 4 && b < 4);
            (a, b)
        }
    };
    let same: bool = kani::any();
    let r1: bool = kani::any();
    let r2: bool = kani::any();
    let (ta, tb) = (Id::from(T5), if same { Id::from(T5) } else { Id::from(T6) });
    let q1 = lookup_of(k1, ta, r1);
    core.cache_iterative_query(&q1, &[]);
    let (m, s) = (core.routing_table.kani_stats(), core.signed_peers_routing_table.kani_stats());
    let e = expected_counts(&[Some(k1), None]);
    assert!(m.0 == e.0 && m.1 == e.1 && s.0 == e.2 && s.1 == e.3, "C20.O1 statistics equal the aggregate over cached lookups (after first lookup)");
    let q2 = lookup_of(k2, tb, r2);
    core.cache_iterative_query(&q2, &[]);
    let (m, s) = (core.routing_table.kani_stats(), core.signed_peers_routing_table.kani_stats());
    let e = expected_counts(&[if same { None } else { Some(k1) }, Some(k2)]);
    assert!(m.0 == e.0 && m.1 == e.1 && s.0 == e.2 && s.1 == e.3, "C20.O1 statistics equal the aggregate over cached lookups (after second lookup)");
    // subnets: every responders sample contributes subnets_count() of its responders (1 node -> 1, none -> 20)
    let sub = |k: u8, r: bool| -> usize { if k == 0 { 0 } else if r { 1 } else { 20 } };
    let mut em = 0usize;
    let mut es = 0usize;
    if !same {
        if k1 == 2 { es += sub(k1, r1) } else { em += sub(k1, r1) }
    }
    if k2 == 2 { es += sub(k2, r2) } else { em += sub(k2, r2) }
    assert!(m.2 == em && s.2 == es, "C20.O1 subnets sum equals the aggregate over cached lookups");
    assert!(core.cached_iterative_queries.len() == if same { 1 } else { 2 }, "C20.O2 cache holds one entry per target");
    assert!(!cut_reached(), "CUT: random bytes exhausted");
    if fix.is_none() {
        kani::cover!(same && k1 == 0 && k2 == 3);
        kani::cover!(!same && k1 == 2 && k2 == 0);
        kani::cover!(same && k1 == 3 && k2 == 0);
    }
    kani::cover!(same && r1 && !r2);
    kani::cover!(!same && !r1 && r2);
    std::mem::forget(q1);
    std::mem::forget(q2);
    std::mem::forget(core);
}

//@ ob: C20.O1
//@ tier: off
//@ cap: 2700
//@ mem: 20
//@ standins: tracing lru vcoll
//@ desc: statistics pairing: after caching one finished lookup and then a second one (same target = replacement, or a different target), the per-table sample counters (dht size estimates count, responders samples count, subnets sum) equal the aggregate over the lookups currently cached -- find_node lookups count only towards the basic estimate, get_signed_peers lookups only towards the signed-peers table -- and no counter underflows
//@ bounds: two cache steps; lookup kinds symbolic among find_node / get_peers / get_signed_peers / get (4 x 4); second target same or different; each lookup has one concrete candidate and zero or one responder (so the f64 estimates are constants); cache capacity stand-in 4; unwind 26
//@ outside: f64 sums are not compared bit for bit (float addition is not associative); rolling the 1000-entry cache (replacement of an existing key exercises the same decrement path)
//@ stubs: ClosestNodes::dht_size_estimate -> constant (the f64 estimate values are outside; the counters and subnet sums are real); Instant::now; getrandom::fill
//@ functions: Core::{cache_iterative_query, decrement_cached_iterative_query_stats}, RoutingTable::{increment_responders_stats, increment_dht_size_estimate, decrement_*}, ClosestNodes::{dht_size_estimate, subnets_count}
#[kani::proof]
#[kani::stub(std::time::Instant::now, clock::now)]
#[kani::stub(getrandom::fill, rnd::fill)]
#[kani::stub(crate::common::closest_nodes::ClosestNodes::dht_size_estimate, dse_const)]
#[kani::stub(<crate::common::RequestTypeSpecific as std::clone::Clone>::clone, request_type_clone_lookup)]
#[kani::unwind(26)]
fn c20_o1_stats_pairing() {
    stats_pairing(None);
}

//@ ob: C20.O1a
//@ tier: off
//@ cap: 2400
//@ mem: 24
//@ standins: tracing lru vcoll
//@ desc: statistics pairing, instance find_node then get_value: after caching the first finished lookup and then the second (same target = replacement of the cached entry, or a different target; each with or without a responder), every per-table counter (dht size samples, responders samples, subnets sum) equals the aggregate over the lookups currently cached -- the replaced entry is subtracted from the table and branch chosen by ITS OWN request kind -- and nothing underflows
//@ bounds: as C20.O1 with the two lookup kinds fixed; same / different target, responder presence symbolic
//@ outside: as C20.O1
//@ stubs: as C20.O1; <RequestTypeSpecific as Clone>::clone -> variant-wise copy for the lookup kinds (put variant: flagged cut)
//@ functions: Core::{cache_iterative_query, decrement_cached_iterative_query_stats}, RoutingTable::{increment_*, decrement_*}, ClosestNodes::subnets_count
#[kani::proof]
#[kani::stub(std::time::Instant::now, clock::now)]
#[kani::stub(getrandom::fill, rnd::fill)]
#[kani::stub(crate::common::closest_nodes::ClosestNodes::dht_size_estimate, dse_const)]
#[kani::stub(<crate::common::RequestTypeSpecific as std::clone::Clone>::clone, request_type_clone_lookup)]
#[kani::unwind(26)]
fn c20_o1a_stats_find_then_get() {
    stats_pairing(Some((0, 3)));
}

//@ ob: C20.O1b
//@ tier: off
//@ cap: 2400
//@ mem: 24
//@ standins: tracing lru vcoll
//@ desc: statistics pairing, instance get_value then find_node: after caching the first finished lookup and then the second (same target = replacement of the cached entry, or a different target; each with or without a responder), every per-table counter (dht size samples, responders samples, subnets sum) equals the aggregate over the lookups currently cached -- the replaced entry is subtracted from the table and branch chosen by ITS OWN request kind -- and nothing underflows
//@ bounds: as C20.O1 with the two lookup kinds fixed; same / different target, responder presence symbolic
//@ outside: as C20.O1
//@ stubs: as C20.O1; <RequestTypeSpecific as Clone>::clone -> variant-wise copy for the lookup kinds (put variant: flagged cut)
//@ functions: Core::{cache_iterative_query, decrement_cached_iterative_query_stats}, RoutingTable::{increment_*, decrement_*}, ClosestNodes::subnets_count
#[kani::proof]
#[kani::stub(std::time::Instant::now, clock::now)]
#[kani::stub(getrandom::fill, rnd::fill)]
#[kani::stub(crate::common::closest_nodes::ClosestNodes::dht_size_estimate, dse_const)]
#[kani::stub(<crate::common::RequestTypeSpecific as std::clone::Clone>::clone, request_type_clone_lookup)]
#[kani::unwind(26)]
fn c20_o1b_stats_get_then_find() {
    stats_pairing(Some((3, 0)));
}

//@ ob: C20.O1c
//@ tier: off
//@ cap: 2400
//@ mem: 24
//@ standins: tracing lru vcoll
//@ desc: statistics pairing, instance get_peers then get_signed_peers (different tables): after caching the first finished lookup and then the second (same target = replacement of the cached entry, or a different target; each with or without a responder), every per-table counter (dht size samples, responders samples, subnets sum) equals the aggregate over the lookups currently cached -- the replaced entry is subtracted from the table and branch chosen by ITS OWN request kind -- and nothing underflows
//@ bounds: as C20.O1 with the two lookup kinds fixed; same / different target, responder presence symbolic
//@ outside: as C20.O1
//@ stubs: as C20.O1; <RequestTypeSpecific as Clone>::clone -> variant-wise copy for the lookup kinds (put variant: flagged cut)
//@ functions: Core::{cache_iterative_query, decrement_cached_iterative_query_stats}, RoutingTable::{increment_*, decrement_*}, ClosestNodes::subnets_count
#[kani::proof]
#[kani::stub(std::time::Instant::now, clock::now)]
#[kani::stub(getrandom::fill, rnd::fill)]
#[kani::stub(crate::common::closest_nodes::ClosestNodes::dht_size_estimate, dse_const)]
#[kani::stub(<crate::common::RequestTypeSpecific as std::clone::Clone>::clone, request_type_clone_lookup)]
#[kani::unwind(26)]
fn c20_o1c_stats_peers_then_signed() {
    stats_pairing(Some((1, 2)));
}

//@ ob: C20.O1d
//@ tier: off
//@ cap: 2400
//@ mem: 24
//@ standins: tracing lru vcoll
//@ desc: statistics pairing, instance get_signed_peers then find_node (different tables): after caching the first finished lookup and then the second (same target = replacement of the cached entry, or a different target; each with or without a responder), every per-table counter (dht size samples, responders samples, subnets sum) equals the aggregate over the lookups currently cached -- the replaced entry is subtracted from the table and branch chosen by ITS OWN request kind -- and nothing underflows
//@ bounds: as C20.O1 with the two lookup kinds fixed; same / different target, responder presence symbolic
//@ outside: as C20.O1
//@ stubs: as C20.O1; <RequestTypeSpecific as Clone>::clone -> variant-wise copy for the lookup kinds (put variant: flagged cut)
//@ functions: Core::{cache_iterative_query, decrement_cached_iterative_query_stats}, RoutingTable::{increment_*, decrement_*}, ClosestNodes::subnets_count
#[kani::proof]
#[kani::stub(std::time::Instant::now, clock::now)]
#[kani::stub(getrandom::fill, rnd::fill)]
#[kani::stub(crate::common::closest_nodes::ClosestNodes::dht_size_estimate, dse_const)]
#[kani::stub(<crate::common::RequestTypeSpecific as std::clone::Clone>::clone, request_type_clone_lookup)]
#[kani::unwind(26)]
fn c20_o1d_stats_signed_then_find() {
    stats_pairing(Some((2, 0)));
}

//@ ob: C20.O1e
//@ tier: off
//@ cap: 2400
//@ mem: 24
//@ standins: tracing lru vcoll
//@ desc: statistics pairing, instance get_peers then get_peers: after caching the first finished lookup and then the second (same target = replacement of the cached entry, or a different target; each with or without a responder), every per-table counter (dht size samples, responders samples, subnets sum) equals the aggregate over the lookups currently cached -- the replaced entry is subtracted from the table and branch chosen by ITS OWN request kind -- and nothing underflows
//@ bounds: as C20.O1 with the two lookup kinds fixed; same / different target, responder presence symbolic
//@ outside: as C20.O1
//@ stubs: as C20.O1; <RequestTypeSpecific as Clone>::clone -> variant-wise copy for the lookup kinds (put variant: flagged cut)
//@ functions: Core::{cache_iterative_query, decrement_cached_iterative_query_stats}, RoutingTable::{increment_*, decrement_*}, ClosestNodes::subnets_count
#[kani::proof]
#[kani::stub(std::time::Instant::now, clock::now)]
#[kani::stub(getrandom::fill, rnd::fill)]
#[kani::stub(crate::common::closest_nodes::ClosestNodes::dht_size_estimate, dse_const)]
#[kani::stub(<crate::common::RequestTypeSpecific as std::clone::Clone>::clone, request_type_clone_lookup)]
#[kani::unwind(26)]
fn c20_o1e_stats_peers_then_peers() {
    stats_pairing(Some((1, 1)));
}


//! Observation helper for C03/C20 harnesses: reads the peers store without going through
//! `get_random_peers` (whose random-subset branch allocates a buffer of symbolic size, which a
//! model checker cannot handle when the store's size is not a compile-time constant).
//! Private names used: `PeersStore { info_hashes }`.
use super::*;

impl PeersStore {
    /// (number of peers stored for `info_hash`, the most recently announced one)
    pub(crate) fn kani_peers(&self, info_hash: &Id) -> Option<(usize, Option<SocketAddrV4>)> {
        self.info_hashes.peek(info_hash).map(|l| (l.len(), l.iter().next().map(|e| *e.1)))
    }
    pub(crate) fn kani_info_hashes(&self) -> usize {
        self.info_hashes.len()
    }
}

//! Observation helper for C03/C20 harnesses: reads the peers store without going through
//! `get_random_peers` (whose random-subset branch allocates a buffer of symbolic size, which a
//! model checker cannot handle when the store's size is not a compile-time constant).
//! Private names used: `PeersStore { info_hashes }`.
use super::*;
#[allow(unused_imports)]
use crate::verif_env::k as kani;

impl PeersStore {
    /// (number of peers stored for `info_hash`, the most recently announced one)
    pub(crate) fn kani_peers(&self, info_hash: &Id) -> Option<(usize, Option<SocketAddrV4>)> {
        self.info_hashes.peek(info_hash).map(|l| (l.len(), l.iter().next().map(|e| *e.1)))
    }
    pub(crate) fn kani_info_hashes(&self) -> usize {
        self.info_hashes.len()
    }
}

use std::net::SocketAddrV4 as A4;

//@ ob: C20.O2
//@ tier: quick
//@ cap: 800
//@ rss: 0.5
//@ time: 12
//@ unwindset_raw: memcmp.0:22
//@ standins: lru
//@ also: C03
//@ desc: the peers store never exceeds its configured capacities: with max_peers_per_info_hash = 3, announcing 4 distinct peers on one info hash leaves exactly the 3 most recently announced (the first is evicted), re-announcing a known peer does not grow the set; with max_info_hashes = 1 a second info hash evicts the first
//@ bounds: capacities (1 info hash, 3 peers); 4 + 1 concrete announcements, one symbolic repeat; on the lru stand-in (4 fixed slots; validated differentially against the real crate, including resize); unwind 8
//@ stubs: none
//@ functions: PeersStore::{new,add_peer}, LruCache::{new,get_mut,put} as used by the store
#[kani::proof]
#[kani::unwind(8)]
fn c20_o2_peers_capacity() {
    let one = NonZeroUsize::new(1).unwrap();
    let three = NonZeroUsize::new(3).unwrap();
    let mut store = PeersStore::new(one, three);
    let ih = Id::from([1u8; 20]);
    let mk = |i: u8| (Id::from([0x10 + i; 20]), A4::new([10, 0, 0, i].into(), 1000 + i as u16));
    let peers = [mk(1), mk(2), mk(3), mk(4)];
    let mut i = 0;
    while i < 4 {
        store.add_peer(ih, (&peers[i].0, peers[i].1));
        let n = store.kani_peers(&ih).map(|p| p.0).unwrap_or(0);
        assert!(n <= 3, "C20.O2 store never exceeds its capacity");
        assert!(n == if i < 3 { i + 1 } else { 3 }, "C20.O2 every announced peer is stored until the capacity is reached");
        i += 1;
    }
    assert!(store.kani_peers(&ih).and_then(|p| p.1) == Some(peers[3].1), "C20.O2 the most recent announcement is kept");
    let has_first = store.info_hashes.peek(&ih).map(|l| l.contains(&peers[0].0)).unwrap_or(false);
    assert!(!has_first, "C20.O2 the least recently announced peer is the one evicted");
    // re-announcing a known peer does not grow the set
    let again: u8 = kani::any();
    kani::assume(again >= 1 && again <= 3);
    store.add_peer(ih, (&peers[again as usize].0, peers[again as usize].1));
    assert!(store.kani_peers(&ih).map(|p| p.0) == Some(3), "C20.O2 store never exceeds its capacity");
    // a second info hash with max_info_hashes = 1 evicts the first
    let ih2 = Id::from([2u8; 20]);
    store.add_peer(ih2, (&peers[0].0, peers[0].1));
    assert!(store.kani_info_hashes() == 1 && store.kani_peers(&ih).is_none(), "C20.O2 info hashes are bounded, least recently used goes");
    kani::cover!(again == 2);
    std::mem::forget(store);
}

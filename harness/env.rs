//! Shared harness environment: symbolic clock, random bytes, formatting stub, ghost flags.
//! Attached to the scratch copy of `src/lib.rs` as `crate::verif_env` (cfg(kani) only).
#![allow(dead_code)]

/// Virtual monotonic clock.  Under Kani `std::time::Instant::now` is stubbed by [`clock::now`];
/// in native replay (`cfg(verif_replay)`) the real `Instant::now` runs and reads the virtual
/// clock through the LD_PRELOAD shim (`/verif/replay/envshim.c`), which `clock::set` drives.
pub mod clock {
    use std::time::Instant;
    #[repr(C)]
    struct Raw {
        secs: i64,
        nanos: u32,
        pad: u32,
    }
    pub static mut NOW_S: u64 = 0;
    pub const EPOCH: i64 = 1_000_000;
    pub fn now() -> Instant {
        unsafe {
            std::mem::transmute::<Raw, Instant>(Raw {
                secs: EPOCH + NOW_S as i64,
                nanos: 0,
                pad: 0,
            })
        }
    }
    #[cfg(not(verif_replay))]
    pub fn set(s: u64) {
        unsafe { NOW_S = s }
    }
    #[cfg(verif_replay)]
    extern "C" {
        fn verif_set_clock(s: i64);
    }
    #[cfg(verif_replay)]
    pub fn set(s: u64) {
        unsafe {
            NOW_S = s;
            verif_set_clock(s as i64);
        }
    }
    pub fn get() -> u64 {
        unsafe { NOW_S }
    }
}

/// Wall clock (µs) for `signed_announce::system_time`.
pub mod wall {
    pub static mut NOW_US: u64 = 0;
    pub fn system_time() -> u64 {
        unsafe { NOW_US }
    }
}

pub mod rnd {
    //! Random bytes.  All nondeterminism is drawn in the harness body (`preload`), never inside a
    //! stub, so that the order of `kani::any()` calls is the same under Kani and in native replay.
    pub static mut BUF: [u8; 64] = [0; 64];
    pub static mut LEN: usize = 0;
    pub static mut POS: usize = 0;
    #[cfg(verif_replay)]
    extern "C" {
        fn verif_push_rand(p: *const u8, n: usize);
    }
    /// Queue `bytes` as the next values returned by `getrandom::fill`.
    pub fn preload(bytes: &[u8]) {
        let mut i = 0;
        while i < bytes.len() {
            unsafe {
                if LEN < 64 {
                    BUF[LEN] = bytes[i];
                    LEN += 1;
                }
            }
            i += 1;
        }
        #[cfg(verif_replay)]
        unsafe {
            verif_push_rand(bytes.as_ptr(), bytes.len());
        }
    }
    /// `getrandom::fill` stand-in: pops preloaded bytes; running dry is a flagged cut.
    pub fn fill(dest: &mut [u8]) -> Result<(), getrandom::Error> {
        let mut i = 0;
        while i < dest.len() {
            unsafe {
                if POS < LEN {
                    dest[i] = BUF[POS];
                    POS += 1;
                } else {
                    super::cut();
                    dest[i] = 0x42;
                }
            }
            i += 1;
        }
        Ok(())
    }
    /// `Id::random` stand-in with a fixed value (where the id is irrelevant).
    pub fn fixed_id() -> crate::common::Id {
        crate::common::Id::from([9u8; 20])
    }
}

/// `alloc::fmt::format` stand-in where formatting is not the subject.
pub fn fmt_stub(_: std::fmt::Arguments<'_>) -> String {
    String::new()
}

/// Set by every flagged cut; harnesses assert it is false at the end (else INCONCLUSIVE).
pub static mut CUT_REACHED: bool = false;
pub fn cut() {
    unsafe { CUT_REACHED = true }
}
pub fn cut_reached() -> bool {
    unsafe { CUT_REACHED }
}

/// Independent bitwise CRC32C (Castagnoli, reflected, init/xorout 0xFFFFFFFF).
pub fn ref_crc32c(data: &[u8]) -> u32 {
    let mut crc = 0xFFFF_FFFFu32;
    let mut i = 0;
    while i < data.len() {
        crc ^= data[i] as u32;
        let mut j = 0;
        while j < 8 {
            crc = if crc & 1 != 0 { (crc >> 1) ^ 0x82F6_3B78 } else { crc >> 1 };
            j += 1;
        }
        i += 1;
    }
    !crc
}

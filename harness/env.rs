//! Shared harness environment: symbolic clock, random bytes, formatting stub, ghost flags.
//! Attached to the scratch copy of `src/lib.rs` as `crate::verif_env` (cfg(kani) only).
#![allow(dead_code)]

/// Virtual monotonic clock.  Under Kani `std::time::Instant::now` is stubbed by [`clock::now`];
/// in native replay (`cfg(verif_replay)`) the real `Instant::now` runs and reads the virtual
/// clock through the LD_PRELOAD shim (`/verif/replay/envshim.c`), which `clock::set` drives.
pub mod clock {
    use std::time::Instant;
    #[repr(C)]
    struct Raw {
        secs: i64,
        nanos: u32,
        pad: u32,
    }
    pub static mut NOW_S: crate::verif_env::Ghost<u64> = crate::verif_env::ghost(8, 0);
    pub const EPOCH: i64 = 1_000_000;
    pub fn now() -> Instant {
        unsafe {
            std::mem::transmute::<Raw, Instant>(Raw {
                secs: EPOCH + NOW_S.v as i64,
                nanos: 0,
                pad: 0,
            })
        }
    }
    #[cfg(not(verif_replay))]
    pub fn set(s: u64) {
        unsafe { NOW_S.v = s }
    }
    #[cfg(verif_replay)]
    pub fn set(s: u64) {
        unsafe {
            NOW_S.v = s;
            let f: extern "C" fn(i64) = std::mem::transmute(super::shim::sym(b"verif_set_clock\0"));
            f(s as i64);
        }
    }
    pub fn get() -> u64 {
        unsafe { NOW_S.v }
    }
}

/// Native replay only: entry points of the LD_PRELOAD environment shim, resolved at run time
/// (the shim is not a link-time dependency).
#[cfg(verif_replay)]
pub mod shim {
    extern "C" {
        fn dlsym(handle: *mut std::ffi::c_void, symbol: *const std::ffi::c_char) -> *mut std::ffi::c_void;
    }
    pub fn sym(name: &[u8]) -> *mut std::ffi::c_void {
        let p = unsafe { dlsym(std::ptr::null_mut(), name.as_ptr() as *const std::ffi::c_char) };
        assert!(!p.is_null(), "verif envshim is not preloaded (LD_PRELOAD)");
        p
    }
}

/// Wall clock (µs) for `signed_announce::system_time`.
pub mod wall {
    pub static mut NOW_US: crate::verif_env::Ghost<u64> = crate::verif_env::ghost(9, 0);
    pub fn system_time() -> u64 {
        unsafe { NOW_US.v }
    }
    pub fn set(us: u64) {
        unsafe {
            NOW_US.v = us;
            #[cfg(verif_replay)]
            {
                let f: extern "C" fn(u64) = std::mem::transmute(super::shim::sym(b"verif_set_wall\0"));
                f(us);
            }
        }
    }
}

pub mod rnd {
    //! Random bytes.  All nondeterminism is drawn in the harness body (`preload`), never inside a
    //! stub, so that the order of `kani::any()` calls is the same under Kani and in native replay.
    pub static mut BUF: crate::verif_env::Ghost<[u8; 128]> = crate::verif_env::ghost(10, [0; 128]);
    pub static mut LEN: crate::verif_env::Ghost<usize> = crate::verif_env::ghost(11, 0);
    pub static mut POS: crate::verif_env::Ghost<usize> = crate::verif_env::ghost(12, 0);
    /// Queue `bytes` as the next values returned by `getrandom::fill`.
    /// (slice copies, no loops: the harness-wide unwind bound does not have to cover them)
    pub fn preload(bytes: &[u8]) {
        unsafe {
            let n = bytes.len();
            if LEN.v + n <= 128 {
                BUF.v[LEN.v..LEN.v + n].copy_from_slice(bytes);
                LEN.v += n;
            } else {
                super::cut();
            }
        }
        #[cfg(verif_replay)]
        unsafe {
            let f: extern "C" fn(*const u8, usize) = std::mem::transmute(super::shim::sym(b"verif_push_rand\0"));
            f(bytes.as_ptr(), bytes.len());
        }
    }
    /// `getrandom::fill` stand-in: pops preloaded bytes; running dry is a flagged cut.
    pub fn fill(dest: &mut [u8]) -> Result<(), getrandom::Error> {
        unsafe {
            let n = dest.len();
            if POS.v + n <= LEN.v {
                dest.copy_from_slice(&BUF.v[POS.v..POS.v + n]);
                POS.v += n;
            } else {
                super::cut();
            }
        }
        Ok(())
    }
    /// `Id::random` stand-in with a fixed value (where the id is irrelevant).
    pub fn fixed_id() -> crate::common::Id {
        crate::common::Id::from([9u8; 20])
    }
}

/// `kani` with anchored draws.  Harness files import this module under the name `kani`, so every
/// `kani::any()` in a harness goes through [`k::any`]: the drawn value is tied to a trivially
/// satisfiable cover property ("verif-anchor").  CBMC drops assignments no property depends on, and
/// Kani's concrete playback then omits those draws from the generated test, which shifts the later
/// values onto the wrong draws in a native replay.  With the anchor every draw is part of the
/// formula, every value is in the trace, and the native replay consumes them in exact order.
pub mod k {
    pub use ::kani::*;
    #[inline(never)]
    pub fn any<T: ::kani::Arbitrary>() -> T {
        let v = ::kani::any::<T>();
        #[cfg(not(verif_replay))]
        anchor(&v);
        v
    }
    /// Environment values that only flow into ghost tables (token secrets, pre-drawn digests of the
    /// uninterpreted functions, random bytes): drawn as anchored u64 words and reinterpreted, because
    /// Kani's concrete playback leaves whole-array draws out of the generated test when the array is
    /// only copied into a static (the native replay would then hand the following scalar values to
    /// the wrong draws).  Also used for every byte-array draw of a harness.  Sizes up to 256 bytes; loop-free.
    pub fn env<T: Copy>() -> T {
        let n = std::mem::size_of::<T>();
        assert!(n <= 256, "verif_env::k::env draws at most 256 bytes");
        macro_rules! words { ($($k:expr),*) => { [ $( if n > $k * 8 { any::<u64>() } else { 0 } ),* ] } }
        let w: [u64; 32] = words!(0, 1, 2, 3, 4, 5, 6, 7, 8, 9, 10, 11, 12, 13, 14, 15, 16, 17, 18, 19, 20, 21, 22, 23, 24, 25, 26, 27, 28, 29, 30, 31);
        unsafe { std::ptr::read(w.as_ptr() as *const T) }
    }
    #[cfg(not(verif_replay))]
    fn anchor<T>(v: &T) {
        let n = std::mem::size_of::<T>();
        let p = v as *const T as *const u8;
        let mut acc: u128 = 0;
        // loop-free fold of up to 256 bytes (sizes are compile-time constants per instantiation)
        macro_rules! chunk { ($($k:expr),*) => { $( if n >= ($k + 1) * 16 { acc ^= unsafe { std::ptr::read_unaligned(p.add($k * 16) as *const u128) }; } )* } }
        chunk!(0, 1, 2, 3, 4, 5, 6, 7, 8, 9, 10, 11, 12, 13, 14, 15);
        let base = (n / 16) * 16;
        macro_rules! tail { ($($k:expr),*) => { $( if n < 256 && base + $k < n { acc ^= (unsafe { *p.add(base + $k) } as u128) << (8 * $k); } )* } }
        tail!(0, 1, 2, 3, 4, 5, 6, 7, 8, 9, 10, 11, 12, 13, 14);
        ::kani::cover!(n == 0 || acc != 0x5a5a, "verif-anchor");
    }
}

/// Decimal `Display` for `i64` / `usize` without std's lookup-table formatter and `pad_integral`:
/// plain digits (and a leading '-') written with one `write_str`.  Equivalent to std for the `{}`
/// placeholders without width / fill / sign flags that the crate uses; validated natively against
/// `to_string()` at setup (bin/setup) and by every native replay (which runs std's formatter).
pub mod dec {
    use std::fmt;
    fn write_dec(mut n: u64, neg: bool, f: &mut fmt::Formatter<'_>) -> fmt::Result {
        let mut buf = [0u8; 21];
        let mut i = 21;
        loop {
            i -= 1;
            buf[i] = b'0' + (n % 10) as u8;
            n /= 10;
            if n == 0 {
                break;
            }
        }
        if neg {
            i -= 1;
            buf[i] = b'-';
        }
        f.write_str(unsafe { std::str::from_utf8_unchecked(&buf[i..]) })
    }
    pub fn i64_display(v: &i64, f: &mut fmt::Formatter<'_>) -> fmt::Result {
        write_dec(v.unsigned_abs(), *v < 0, f)
    }
    pub fn usize_display(v: &usize, f: &mut fmt::Formatter<'_>) -> fmt::Result {
        write_dec(*v as u64, false, f)
    }
}

/// `Node::is_secure` as an uninterpreted predicate for the table-structure obligations: whether a
/// node's id is BEP42-valid for its IP is a pre-drawn bit selected by (id[19] & 3, ip[0] & 1) --
/// eight independent symbolic bits, so every secure / insecure assignment to the handful of nodes a
/// harness builds occurs -- except that private (10.x.x.x) addresses stay exempt (always secure) as
/// in the real code.  A function of (id, ip), loop-free.  What BEP42 validity really is: C19.O3/O4
/// (real CRC32C), exercised end to end by C11.O1.
pub mod ufs {
    pub static mut BITS: crate::verif_env::Ghost<u8> = crate::verif_env::ghost(102, 0);
    pub fn arm(bits: u8) {
        unsafe { BITS.v = bits }
    }
    pub fn is_secure(n: &crate::common::Node) -> bool {
        let ip = n.address().ip().octets();
        if ip[0] == 10 {
            return true;
        }
        let idx = ((n.id().as_bytes()[19] & 3) << 1) | (ip[0] & 1);
        (unsafe { BITS.v } >> idx) & 1 == 1
    }
}

/// `alloc::fmt::format` as a numbered tag ("#1", "#2", ...): where an obligation is about what a
/// function does AROUND its formatted pieces (raw bytes appended verbatim, number and order of
/// pieces) and the formatted text itself is outside (core::fmt::write does not finish symbolic
/// execution even with the decimal stub in place: 1500 s cap).
pub mod fmt_tag {
    pub static mut CALLS: crate::verif_env::Ghost<usize> = crate::verif_env::ghost(107, 0);
    pub fn format(_: std::fmt::Arguments<'_>) -> String {
        unsafe {
            CALLS.v += 1;
            if CALLS.v == 1 {
                String::from("#1")
            } else if CALLS.v == 2 {
                String::from("#2")
            } else {
                String::from("#n")
            }
        }
    }
    pub fn calls() -> usize {
        unsafe { CALLS.v }
    }
    pub fn reset() {
        unsafe { CALLS.v = 0 }
    }
}

/// `alloc::fmt::format` stand-in where formatting is not the subject.
pub fn fmt_stub(_: std::fmt::Arguments<'_>) -> String {
    String::new()
}

/// Set by every flagged cut; harnesses assert it is false at the end (else INCONCLUSIVE).
pub static mut CUT_REACHED: crate::verif_env::Ghost<bool> = crate::verif_env::ghost(13, false);
pub fn cut() {
    unsafe { CUT_REACHED.v = true }
}
pub fn cut_reached() -> bool {
    unsafe { CUT_REACHED.v }
}

/// Independent bitwise CRC32C (Castagnoli, reflected, init/xorout 0xFFFFFFFF).
pub fn ref_crc32c(data: &[u8]) -> u32 {
    let mut crc = 0xFFFF_FFFFu32;
    let mut i = 0;
    while i < data.len() {
        crc ^= data[i] as u32;
        let mut j = 0;
        while j < 8 {
            crc = if crc & 1 != 0 { (crc >> 1) ^ 0x82F6_3B78 } else { crc >> 1 };
            j += 1;
        }
        i += 1;
    }
    !crc
}

/// Signature oracle: replaces `<VerifyingKey as Verifier<Signature>>::verify`.
/// Verdicts are drawn by the harness body (`oracle::arm`) before the code under test runs; every
/// query is recorded so the harness can assert *what* was verified.  In native replay the real
/// Ed25519 runs and `oracle::signature` realises the verdict with a real signature (valid) or a
/// corrupted one (invalid) under the fixed seeds whose public keys are K1/K2.
pub mod oracle {
    use ed25519_dalek::{Signature, SignatureError, VerifyingKey};
    /// public key of SigningKey::from_bytes(&[1; 32])
    pub const K1: [u8; 32] = [
        138, 136, 227, 221, 116, 9, 241, 149, 253, 82, 219, 45, 60, 186, 93, 114, 202, 103, 9, 191,
        29, 148, 18, 27, 243, 116, 136, 1, 180, 15, 111, 92,
    ];
    /// public key of SigningKey::from_bytes(&[2; 32])
    pub const K2: [u8; 32] = [
        129, 57, 119, 14, 168, 125, 23, 95, 86, 163, 84, 102, 195, 76, 126, 204, 203, 141, 138,
        145, 180, 238, 55, 162, 93, 246, 15, 91, 143, 201, 179, 148,
    ];
    pub const MAXQ: usize = 3;
    pub const MAXMSG: usize = 64;
    pub static mut VERDICT: crate::verif_env::Ghost<[bool; MAXQ]> = crate::verif_env::ghost(14, [false; MAXQ]);
    pub static mut ASKED: crate::verif_env::Ghost<usize> = crate::verif_env::ghost(15, 0);
    pub static mut KEY: crate::verif_env::Ghost<[[u8; 32]; MAXQ]> = crate::verif_env::ghost(16, [[0; 32]; MAXQ]);
    pub static mut SIG: crate::verif_env::Ghost<[[u8; 64]; MAXQ]> = crate::verif_env::ghost(17, [[0; 64]; MAXQ]);
    pub static mut MSG: crate::verif_env::Ghost<[[u8; MAXMSG]; MAXQ]> = crate::verif_env::ghost(18, [[0; MAXMSG]; MAXQ]);
    pub static mut MSG_LEN: crate::verif_env::Ghost<[usize; MAXQ]> = crate::verif_env::ghost(19, [0; MAXQ]);

    /// fix the verdict of the i-th query
    pub fn arm(i: usize, verdict: bool) {
        unsafe { VERDICT.v[i] = verdict }
    }
    pub fn asked() -> usize {
        unsafe { ASKED.v }
    }
    pub fn verify_stub(k: &VerifyingKey, msg: &[u8], sig: &Signature) -> Result<(), SignatureError> {
        unsafe {
            let i = ASKED.v;
            if i >= MAXQ || msg.len() > MAXMSG {
                super::cut();
                return Err(SignatureError::new());
            }
            KEY.v[i] = *k.as_bytes();
            SIG.v[i] = sig.to_bytes();
            let mut j = 0;
            while j < msg.len() {
                MSG.v[i][j] = msg[j];
                j += 1;
            }
            MSG_LEN.v[i] = msg.len();
            ASKED.v += 1;
            if VERDICT.v[i] { Ok(()) } else { Err(SignatureError::new()) }
        }
    }
    /// `VerifyingKey::from_bytes` (point decompression) behind a flagged cut, for obligations in
    /// which a malformed key must be refused *before* any curve arithmetic
    pub fn from_bytes_cut(_b: &[u8; 32]) -> Result<VerifyingKey, SignatureError> {
        super::cut();
        Err(SignatureError::new())
    }
    /// `VerifyingKey::from_bytes` without the curve arithmetic: every 32-byte string is taken as a key
    /// whose compressed form is those bytes (the point itself is never read: `verify` is the oracle).
    /// Widens the set of accepted keys, so "accepted => exactly this triple was verified" stays sound;
    /// the real decompression runs in the *.O1f / *.O2c length instances and in every native replay.
    pub fn from_bytes_wrap(b: &[u8; 32]) -> Result<VerifyingKey, SignatureError> {
        let vk: VerifyingKey = unsafe { std::mem::zeroed() };
        let p = vk.as_bytes().as_ptr() as *mut u8;
        unsafe { std::ptr::copy_nonoverlapping(b.as_ptr(), p, 32) };
        Ok(vk)
    }
    /// true iff query i was about exactly (key, msg, sig)
    pub fn was_about(i: usize, key: &[u8; 32], msg: &[u8], sig: &[u8; 64]) -> bool {
        unsafe {
            if i >= ASKED.v || MSG_LEN.v[i] != msg.len() {
                return false;
            }
            let mut j = 0;
            while j < msg.len() {
                if MSG.v[i][j] != msg[j] {
                    return false;
                }
                j += 1;
            }
            let mut j = 0;
            while j < 32 {
                if KEY.v[i][j] != key[j] {
                    return false;
                }
                j += 1;
            }
            let mut j = 0;
            while j < 64 {
                if SIG.v[i][j] != sig[j] {
                    return false;
                }
                j += 1;
            }
            true
        }
    }
    /// The signature bytes a harness puts on the wire for oracle query `i` over `msg` under seed
    /// `seed` (1 -> K1, 2 -> K2).  Under Kani: the symbolic bytes passed in.  In native replay:
    /// a real signature when the verdict is "valid", a corrupted one otherwise.
    #[cfg(not(verif_replay))]
    pub fn signature(_i: usize, _seed: u8, _msg: &[u8], symbolic: [u8; 64]) -> [u8; 64] {
        symbolic
    }
    #[cfg(verif_replay)]
    pub fn signature(i: usize, seed: u8, msg: &[u8], _symbolic: [u8; 64]) -> [u8; 64] {
        use ed25519_dalek::Signer;
        let sk = ed25519_dalek::SigningKey::from_bytes(&[seed; 32]);
        let mut s: [u8; 64] = sk.sign(msg).into();
        if !unsafe { VERDICT.v[i] } {
            s[5] ^= 0x40;
        }
        s
    }
}

/// Uninterpreted hash `H` for composite obligations: a ghost table answering a repeated input
/// with the recorded digest and a new input with the next pre-drawn digest.  No injectivity is
/// assumed.  Inputs are identified by (length, first 4 bytes) -- harnesses using H keep inputs
/// <= 4 bytes so this is exact.
pub mod uf {
    pub const SLOTS: usize = 3;
    pub static mut SET: crate::verif_env::Ghost<[bool; SLOTS]> = crate::verif_env::ghost(20, [false; SLOTS]);
    pub static mut IN_LEN: crate::verif_env::Ghost<[usize; SLOTS]> = crate::verif_env::ghost(21, [0; SLOTS]);
    pub static mut IN: crate::verif_env::Ghost<[[u8; 4]; SLOTS]> = crate::verif_env::ghost(22, [[0; 4]; SLOTS]);
    pub static mut OUT: crate::verif_env::Ghost<[[u8; 20]; SLOTS]> = crate::verif_env::ghost(23, [[0; 20]; SLOTS]);
    /// pre-draw the digests (harness body)
    pub fn arm(digests: [[u8; 20]; SLOTS]) {
        unsafe { OUT.v = digests }
    }
    pub fn h(v: &[u8]) -> [u8; 20] {
        if v.len() > 4 {
            super::cut();
            return [0; 20];
        }
        let mut key = [0u8; 4];
        let mut j = 0;
        while j < 4 {
            if j < v.len() {
                key[j] = v[j];
            }
            j += 1;
        }
        unsafe {
            let mut i = 0;
            while i < SLOTS {
                if SET.v[i] && IN_LEN.v[i] == v.len() && IN.v[i] == key {
                    return OUT.v[i];
                }
                i += 1;
            }
            let mut i = 0;
            while i < SLOTS {
                if !SET.v[i] {
                    SET.v[i] = true;
                    IN_LEN.v[i] = v.len();
                    IN.v[i] = key;
                    return OUT.v[i];
                }
                i += 1;
            }
        }
        super::cut();
        [0; 20]
    }
}

/// Uninterpreted BEP42 prefix function `P(ip, r)` standing in for `id::id_prefix_ipv4` (CRC32C of
/// the masked IP and r) in obligations that are about ordering / table structure, not about the
/// CRC: a ghost table that answers a repeated (ip, r) with the recorded 3 bytes and a new one with
/// the next pre-drawn 3 bytes.  Nothing is assumed about P beyond being a function (the real one
/// depends only on ip & 0x030f3fff and r & 7; P may distinguish more inputs: an
/// over-approximation).  C19.O3 / C19.O4 / C11.O1 bind the real function to the BEP42 reference.
pub mod ufp {
    pub const SLOTS: usize = 4;
    pub static mut SET: crate::verif_env::Ghost<[bool; SLOTS]> = crate::verif_env::ghost(24, [false; SLOTS]);
    pub static mut IN_IP: crate::verif_env::Ghost<[u32; SLOTS]> = crate::verif_env::ghost(25, [0; SLOTS]);
    pub static mut IN_R: crate::verif_env::Ghost<[u8; SLOTS]> = crate::verif_env::ghost(26, [0; SLOTS]);
    pub static mut OUT: crate::verif_env::Ghost<[[u8; 3]; SLOTS]> = crate::verif_env::ghost(27, [[0; 3]; SLOTS]);
    pub fn arm(outs: [[u8; 3]; SLOTS]) {
        unsafe { OUT.v = outs }
    }
    pub fn prefix(ip: std::net::Ipv4Addr, r: u8) -> [u8; 3] {
        let ipn = u32::from_be_bytes(ip.octets());
        unsafe {
            let mut i = 0;
            while i < SLOTS {
                if SET.v[i] && IN_IP.v[i] == ipn && IN_R.v[i] == r {
                    return OUT.v[i];
                }
                i += 1;
            }
            let mut i = 0;
            while i < SLOTS {
                if !SET.v[i] {
                    SET.v[i] = true;
                    IN_IP.v[i] = ipn;
                    IN_R.v[i] = r;
                    return OUT.v[i];
                }
                i += 1;
            }
        }
        super::cut();
        [0; 3]
    }
}

/// Ghost-state cell.  Kani 0.68 merges a zero-initialised `static mut` with same-sized zero
/// constants of the program (e.g. the capacity constant of `Vec::new()` / `String::new()`), so that
/// writing the static corrupts those constants (observed: `String::new().capacity() == 100` after
/// `NOW_S = 100`).  Every mutable ghost static therefore carries a unique non-zero tag, which makes
/// its initialiser unlike any constant; the payload keeps its natural initial value.
#[repr(C)]
pub struct Ghost<T> {
    pub tag: u64,
    pub v: T,
}
pub const fn ghost<T>(id: u64, v: T) -> Ghost<T> {
    Ghost { tag: 0x6A05_7C0D_E000_0000 | id, v }
}

//! C06.O3 (a put that returns Ok can make progress), C17.O4 (a superseding put replaces the
//! in-flight query and keeps earlier callers parked) — `Actor::put` / `Actor::get`.
//! Private names used: `Actor { socket, core, put_senders, get_senders }`.
//! Stand-ins: `tracing`, `lru`, `vcoll`, `flume`.
//! @needs: socket core put_query iterative_query routing_table closest_nodes
use super::*;
use crate::actor::socket::kani_h::{fake_socket, send_stub, srt_stub, SENT_N};
use crate::common::{AnnouncePeerRequestArguments, PutMutableRequestArguments};
use crate::core::kani_h::new_core;
use crate::verif_env::{clock, cut_reached, rnd};

const T5: [u8; 20] = [5u8; 20];

fn new_actor(bootstrap: Vec<SocketAddrV4>) -> Actor {
    Actor { socket: fake_socket(false), core: new_core(false, bootstrap), put_senders: HashMap::new(), get_senders: HashMap::new() }
}

fn cache_nodes(actor: &mut Actor, target: Id, with_token: bool) {
    let mut id = [0u8; 20];
    id[0] = 0x40;
    let addr = SocketAddrV4::new([10, 0, 2, 1].into(), 7000);
    let n = if with_token { Node::new_with_token(Id::from(id), addr, Box::new([1, 2, 3, 4])) } else { Node::new(Id::from(id), addr) };
    actor.core.kani_cache(target, vec![n]);
}

//@ ob: C06.O3
//@ tier: quick
//@ cap: 2700
//@ mem: 20
//@ standins: tracing lru vcoll flume
//@ desc: progress after put: whenever Actor::put returns Ok for an announce_peer, the put is registered and either has a request in flight (started from fresh cached nodes that carry tokens) or a lookup for its target is active that will start it; with cached closest nodes that carry no token (what find_node(x) leaves) it never 'starts' with nothing in flight -- so the caller cannot be parked forever
//@ bounds: cache state symbolic among {no entry, one fresh token-bearing node, one fresh token-less node}; one bootstrap address; empty routing tables; unwind 26
//@ stubs: KrpcSocket::send -> ghost log; UdpSocket::set_read_timeout -> Ok; Id::random -> fixed; Instant::now; getrandom::fill
//@ functions: Actor::put, Actor::get, Core::{check_concurrency_errors,get_cached_closest_nodes,create_iterative_query}, PutQuery::start, IterativeQuery::visit
#[kani::proof]
#[kani::stub(std::time::Instant::now, clock::now)]
#[kani::stub(getrandom::fill, rnd::fill)]
#[kani::stub(crate::actor::socket::KrpcSocket::send, send_stub)]
#[kani::stub(std::net::UdpSocket::set_read_timeout, srt_stub)]
#[kani::stub(crate::common::id::Id::random, rnd::fixed_id)]
#[kani::unwind(26)]
fn c06_o3_put_makes_progress() {
    clock::set(0);
    let mut actor = new_actor(vec![SocketAddrV4::new([10, 9, 9, 9].into(), 6881)]);
    let target = Id::from(T5);
    let cache: u8 = kani::any();
    kani::assume(cache < 3);
    if cache == 1 {
        cache_nodes(&mut actor, target, true);
    } else if cache == 2 {
        cache_nodes(&mut actor, target, false);
    }
    let req = PutRequestSpecific::AnnouncePeer(AnnouncePeerRequestArguments { info_hash: target, port: 1, implied_port: None });
    let r = actor.put(req, None);
    let registered = actor.core.put_queries.get(&target).map(|q| q.started());
    let lookup_active = actor.core.iterative_queries.contains_key(&target);
    if r.is_ok() {
        assert!(registered.is_some(), "C06.O3 an accepted put is registered");
        assert!(registered == Some(true) || lookup_active, "C06.O3 an accepted put has a request in flight or an active lookup that will start it");
    }
    if cache == 1 {
        assert!(r.is_ok() && registered == Some(true) && unsafe { SENT_N } == 1, "C08.O3 put starts directly from fresh cached nodes with tokens");
    }
    assert!(!cut_reached(), "CUT: random bytes exhausted");
    kani::cover!(cache == 0 && r.is_ok() && lookup_active);
    kani::cover!(cache == 2);
    kani::cover!(cache == 1);
    std::mem::forget(r);
    std::mem::forget(actor);
}

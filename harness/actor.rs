//! C06.O3 (a put that returns Ok can make progress), C17.O4 (a superseding put replaces the
//! in-flight query and keeps earlier callers parked) — `Actor::put` / `Actor::get`.
//! Private names used: `Actor { socket, core, put_senders, get_senders }`.
//! Stand-ins: `tracing`, `lru`, `vcoll`, `flume`.
//! @needs: socket core put_query iterative_query routing_table closest_nodes
use super::*;
#[allow(unused_imports)]
use crate::verif_env::k as kani;
use crate::actor::socket::kani_h::{fake_socket, send_stub, srt_stub, SENT_N};
use crate::common::{AnnouncePeerRequestArguments, PutMutableRequestArguments};
use crate::core::iterative_query::IterativeQuery;
use crate::core::kani_h::new_core;
use crate::verif_env::{clock, cut_reached, rnd};

const T5: [u8; 20] = [5u8; 20];

fn new_actor(bootstrap: Vec<SocketAddrV4>) -> Actor {
    Actor { socket: fake_socket(false), core: new_core(false, bootstrap), put_senders: HashMap::new(), get_senders: HashMap::new() }
}

fn cache_nodes(actor: &mut Actor, target: Id, with_token: bool) {
    let mut id = [0u8; 20];
    id[0] = 0x40;
    let addr = SocketAddrV4::new([10, 0, 2, 1].into(), 7000);
    let n = if with_token { Node::new_with_token(Id::from(id), addr, Box::new([1, 2, 3, 4])) } else { Node::new(Id::from(id), addr) };
    actor.core.kani_cache(target, vec![n]);
}

//@ ob: C06.O3
//@ tier: off
//@ cap: 2700
//@ mem: 20
//@ standins: tracing lru vcoll flume
//@ desc: progress after put: whenever Actor::put returns Ok for an announce_peer, the put is registered and either has a request in flight (started from fresh cached nodes that carry tokens) or a lookup for its target is active that will start it; with cached closest nodes that carry no token (what find_node(x) leaves) it never 'starts' with nothing in flight -- so the caller cannot be parked forever
//@ bounds: cache state symbolic among {no entry, one fresh token-bearing node, one fresh token-less node}; one bootstrap address; empty routing tables; unwind 26
//@ stubs: KrpcSocket::send -> ghost log; UdpSocket::set_read_timeout -> Ok; Id::random -> fixed; Instant::now; getrandom::fill
//@ functions: Actor::put, Actor::get, Core::{check_concurrency_errors,get_cached_closest_nodes,create_iterative_query}, PutQuery::start, IterativeQuery::visit
#[kani::proof]
#[kani::stub(std::time::Instant::now, clock::now)]
#[kani::stub(getrandom::fill, rnd::fill)]
#[kani::stub(crate::actor::socket::KrpcSocket::send, send_stub)]
#[kani::stub(std::net::UdpSocket::set_read_timeout, srt_stub)]
#[kani::stub(crate::common::id::Id::random, rnd::fixed_id)]
#[kani::unwind(26)]
fn c06_o3_put_makes_progress() {
    clock::set(0);
    let mut actor = new_actor(vec![SocketAddrV4::new([10, 9, 9, 9].into(), 6881)]);
    let target = Id::from(T5);
    let cache: u8 = kani::any();
    kani::assume(cache < 3);
    if cache == 1 {
        cache_nodes(&mut actor, target, true);
    } else if cache == 2 {
        cache_nodes(&mut actor, target, false);
    }
    let req = PutRequestSpecific::AnnouncePeer(AnnouncePeerRequestArguments { info_hash: target, port: 1, implied_port: None });
    let r = actor.put(req, None);
    let registered = actor.core.put_queries.get(&target).map(|q| q.started());
    let lookup_active = actor.core.iterative_queries.contains_key(&target);
    if r.is_ok() {
        assert!(registered.is_some(), "C06.O3 an accepted put is registered");
        assert!(registered == Some(true) || lookup_active, "C06.O3 an accepted put has a request in flight or an active lookup that will start it");
    }
    if cache == 1 {
        assert!(r.is_ok() && registered == Some(true) && unsafe { SENT_N.v } == 1, "C08.O3 put starts directly from fresh cached nodes with tokens");
    }
    assert!(!cut_reached(), "CUT: random bytes exhausted");
    kani::cover!(cache == 0 && r.is_ok() && lookup_active);
    kani::cover!(cache == 2);
    kani::cover!(cache == 1);
    std::mem::forget(r);
    std::mem::forget(actor);
}

fn recv_none(_s: &mut KrpcSocket) -> Option<(Message, SocketAddrV4)> {
    None
}
fn maintenance_skip(_a: &mut Actor) {}
fn cache_skip(_c: &mut Core, _q: &IterativeQuery, _n: &[Node]) {}

//@ ob: C06.O4
//@ tier: off
//@ cap: 3000
//@ mem: 28
//@ standins: tracing lru vcoll flume
//@ also: C17 C20
//@ desc: one tick over a finished lookup and the put waiting for it (inductive step of the no-hang invariant): before, a put for T is registered but not started, its caller is parked, and the lookup for T has just finished (no request in flight) with one responder that carries a write token or not; after tick() either the caller is still parked and then the put has a request in flight or a lookup for T is still active, or the caller was released with exactly one result; the finished lookup is gone from the active set; with a token the put is started with exactly one request, without one the caller gets an error
//@ bounds: one lookup (find_node or get_peers, symbolic) with one candidate/responder (token presence symbolic), one parked put (announce_peer), one caller; no incoming datagram this tick; unwind 26
//@ inv: every parked caller's target has a registered put that is started or has an active lookup
//@ stubs: KrpcSocket::recv_from -> None (no datagram); Actor::periodic_node_maintaenance -> skipped (C14/C18); Core::cache_iterative_query -> skipped (statistics are C20.O1); KrpcSocket::send -> ghost log; set_read_timeout; Id::random; Instant::now; getrandom::fill
//@ functions: Actor::{tick,check_done_put_queries,check_done_iterative_queries,start_put_queries}, Core::{closest_nodes_from_done_iterative_query,cleanup_done_queries}, IterativeQuery::{visit_closest,is_done}, PutQuery::{start,check}
#[kani::proof]
#[kani::stub(std::time::Instant::now, clock::now)]
#[kani::stub(getrandom::fill, rnd::fill)]
#[kani::stub(crate::actor::socket::KrpcSocket::send, send_stub)]
#[kani::stub(crate::actor::socket::KrpcSocket::recv_from, recv_none)]
#[kani::stub(Actor::periodic_node_maintaenance, maintenance_skip)]
#[kani::stub(crate::core::Core::cache_iterative_query, cache_skip)]
#[kani::stub(std::net::UdpSocket::set_read_timeout, srt_stub)]
#[kani::stub(crate::common::id::Id::random, rnd::fixed_id)]
#[kani::unwind(26)]
fn c06_o4_tick_releases_or_progresses() {
    clock::set(0);
    let mut actor = new_actor(vec![SocketAddrV4::new([10, 9, 9, 9].into(), 6881)]);
    let target = Id::from(T5);
    // the finished lookup
    let is_find_node: bool = kani::any();
    let req = if is_find_node {
        GetRequestSpecific::FindNode(crate::common::FindNodeRequestArguments { target })
    } else {
        GetRequestSpecific::GetPeers(crate::common::GetPeersRequestArguments { info_hash: target })
    };
    let mut q = IterativeQuery::new(*actor.core.routing_table.id(), target, req);
    let mut id = [0u8; 20];
    id[0] = 0x40;
    let addr = SocketAddrV4::new([10, 0, 2, 1].into(), 7000);
    let with_token: bool = kani::any();
    let n = if with_token { Node::new_with_token(Id::from(id), addr, Box::new([1, 2, 3, 4])) } else { Node::new(Id::from(id), addr) };
    q.add_candidate(n.clone());
    q.kani_mark_visited(addr);
    q.add_responding_node(n);
    actor.core.iterative_queries.insert(target, q);
    // the parked put
    let put = PutQuery::new(PutRequestSpecific::AnnouncePeer(AnnouncePeerRequestArguments { info_hash: target, port: 1, implied_port: None }), None);
    actor.core.put_queries.insert(target, put);
    let (tx, rx) = flume::unbounded::<Result<Id, PutError>>();
    actor.put_senders.insert(target, vec![tx]);

    actor.tick();

    let parked = actor.put_senders.contains_key(&target);
    let started = actor.core.put_queries.get(&target).map(|q| q.started());
    let lookup_active = actor.core.iterative_queries.contains_key(&target);
    let first = rx.try_recv();
    let second = rx.try_recv();
    assert!(!lookup_active, "C20.O4 a finished lookup is removed from the active set");
    if parked {
        assert!(first.is_err(), "C06.O4 no result is delivered while the caller stays parked");
        assert!(started == Some(true) || lookup_active, "C06.O3 an accepted put has a request in flight or an active lookup that will start it");
    } else {
        assert!(first.is_ok() && second.is_err(), "C06.O4 a released caller gets exactly one result");
    }
    // a put whose lookup found a token-bearing responder is started with exactly one request
    // (find_node lookups report candidates, which carry no token)
    if with_token && !is_find_node {
        assert!(parked && started == Some(true) && unsafe { SENT_N.v } == 1, "C08.O3 put starts from the lookup's token-bearing responders");
    }
    if !with_token {
        assert!(!parked && matches!(first, Ok(Err(_))), "C06.O4 a put whose lookup found no writable node fails instead of hanging");
    }
    assert!(!cut_reached(), "CUT: random bytes exhausted");
    kani::cover!(parked && started == Some(true));
    kani::cover!(!parked);
    kani::cover!(is_find_node && with_token);
    std::mem::forget(first);
    std::mem::forget(second);
    std::mem::forget(rx);
    std::mem::forget(actor);
}

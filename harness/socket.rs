//! C09 (response attribution) and C06.O1 (request expiry) — `KrpcSocket::is_expected_response`,
//! `InflightRequests::{add,get,remove,cleanup}`, `compare_socket_addr`.
//! Private names used: `KrpcSocket { socket, server_mode, local_addr, inflight_requests,
//! poll_interval }`, `InflightRequests { next_tid, requests, estimated_rtt, deviation_rtt }`,
//! `InflightRequest { tid, to, sent_at }`.
//! Stand-ins: `tracing`.
use super::*;
#[allow(unused_imports)]
use crate::verif_env::k as kani;
use crate::common::{Id, PingResponseArguments};
use crate::verif_env::clock;

/// A `KrpcSocket` built field by field around a file descriptor that is never used for I/O under
/// Kani (`send` is stubbed where reachable).  In native replay a real loopback socket is bound.
pub(crate) fn fake_socket(server_mode: bool) -> KrpcSocket {
    #[cfg(not(verif_replay))]
    let socket = {
        use std::os::fd::FromRawFd;
        unsafe { UdpSocket::from_raw_fd(3) }
    };
    #[cfg(verif_replay)]
    let socket = UdpSocket::bind("127.0.0.1:0").expect("bind");
    KrpcSocket {
        socket,
        server_mode,
        local_addr: SocketAddrV4::new([127, 0, 0, 1].into(), 6881),
        inflight_requests: InflightRequests::new(),
        poll_interval: MIN_POLL_INTERVAL,
        #[cfg(test)]
        version: [82, 83, 0, 6],
    }
}

/// Ghost log of outgoing datagrams (KrpcSocket::send stub).
pub(crate) static mut SENT_N: crate::verif_env::Ghost<usize> = crate::verif_env::ghost(41, 0);
pub(crate) static mut SENT_TO: crate::verif_env::Ghost<[Option<SocketAddrV4>; 8]> = crate::verif_env::ghost(42, [None; 8]);
pub(crate) static mut SENT_TID: crate::verif_env::Ghost<[u32; 8]> = crate::verif_env::ghost(43, [0; 8]);
pub(crate) static mut SENT_RO: crate::verif_env::Ghost<[bool; 8]> = crate::verif_env::ghost(44, [false; 8]);
pub(crate) static mut SENT_KIND: crate::verif_env::Ghost<[u8; 8]> = crate::verif_env::ghost(45, [0; 8]); // 0 request, 1 response, 2 error
pub(crate) static mut SENT_TOKEN: crate::verif_env::Ghost<[[u8; 4]; 8]> = crate::verif_env::ghost(46, [[0; 4]; 8]);
pub(crate) static mut SENT_LAST: crate::verif_env::Ghost<Option<Message>> = crate::verif_env::ghost(47, None);
pub(crate) fn send_stub(_s: &mut KrpcSocket, a: SocketAddrV4, m: Message) -> Result<(), SendMessageError> {
    unsafe {
        if SENT_N.v < 8 {
            SENT_TO.v[SENT_N.v] = Some(a);
            SENT_TID.v[SENT_N.v] = m.transaction_id;
            SENT_RO.v[SENT_N.v] = m.read_only;
            SENT_KIND.v[SENT_N.v] = match &m.message_type {
                MessageType::Request(r) => {
                    if let crate::common::RequestTypeSpecific::Put(p) = &r.request_type {
                        if p.token.len() == 4 {
                            SENT_TOKEN.v[SENT_N.v] = [p.token[0], p.token[1], p.token[2], p.token[3]];
                        }
                    }
                    0
                }
                MessageType::Response(_) => 1,
                MessageType::Error(_) => 2,
            };
        }
        SENT_N.v += 1;
        SENT_LAST.v = Some(m);
    }
    Ok(())
}
pub(crate) fn srt_stub(_s: &UdpSocket, _d: Option<Duration>) -> std::io::Result<()> {
    Ok(())
}
pub(crate) fn rtt_stub(_s: &mut InflightRequests, _d: Duration) {}

impl KrpcSocket {
    pub(crate) fn kani_add_inflight(&mut self, to: SocketAddrV4) -> u32 {
        self.inflight_requests.add(to)
    }
    pub(crate) fn kani_inflight_len(&self) -> usize {
        self.inflight_requests.requests.len()
    }
    pub(crate) fn kani_set_next_tid(&mut self, t: u32) {
        self.inflight_requests.next_tid = t;
    }
    /// what `is_expected_response` does to the table when the genuine reply arrives
    pub(crate) fn kani_answered(&mut self, tid: u32) -> bool {
        self.inflight_requests.remove(tid).is_some()
    }
}

fn resp(tid: u32) -> Message {
    Message {
        transaction_id: tid,
        version: None,
        requester_ip: None,
        read_only: false,
        message_type: MessageType::Response(ResponseSpecific::Ping(PingResponseArguments {
            responder_id: Id::from([7u8; 20]),
        })),
    }
}
fn err(tid: u32) -> Message {
    Message {
        transaction_id: tid,
        version: None,
        requester_ip: None,
        read_only: false,
        message_type: MessageType::Error(ErrorSpecific { code: 201, description: String::new() }),
    }
}

fn any_addr() -> SocketAddrV4 {
    SocketAddrV4::new(kani::any::<u32>().into(), kani::any())
}
fn any_specified_addr() -> SocketAddrV4 {
    let a = any_addr();
    kani::assume(!a.ip().is_unspecified());
    a
}

//@ ob: C09.O1
//@ rss: 8.2
//@ time: 145
//@ tier: quick
//@ cap: 800
//@ standins: tracing
//@ desc: one outstanding request (symbolic destination, symbolic starting tid): a symbolic message (tid', from') is accepted only if tid' is the outstanding tid and from' equals the destination (ip and port); a rejected message leaves the request answerable: the genuine reply is accepted afterwards, and its duplicate is not
//@ bounds: 1 outstanding request; all tids < 2^32-8, all address pairs (destination not 0.0.0.0: see C09.K1); clock fixed (expiry is C09.O4); unwind 6
//@ inv: requests strictly increasing in tid, non-decreasing in sent_at, next_tid above all (established by construction through add())
//@ stubs: std::time::Instant::now -> symbolic whole-second clock; InflightRequests::update_rtt_estimates -> no-op (timeout stays 500 ms)
//@ functions: KrpcSocket::is_expected_response, InflightRequests::{add,get,remove,find_by_tid}, compare_socket_addr
#[kani::proof]
#[kani::stub(std::time::Instant::now, clock::now)]
#[kani::stub(InflightRequests::update_rtt_estimates, rtt_stub)]
#[kani::unwind(6)]
fn c09_o1_one_request() {
    clock::set(0);
    let mut s = fake_socket(false);
    let first: u32 = kani::any();
    kani::assume(first < u32::MAX - 8);
    s.kani_set_next_tid(first);
    let to = any_specified_addr();
    let tid = s.inflight_requests.add(to);
    let spoof_tid: u32 = kani::any();
    let spoof_from = any_addr();
    let as_error: bool = kani::any();
    let m = if as_error { err(spoof_tid) } else { resp(spoof_tid) };
    let r1 = s.is_expected_response(&m, &spoof_from);
    let genuine_first = spoof_tid == tid && spoof_from == to;
    assert!(r1 == genuine_first, "C09.O1 accepted iff tid and full address match the outstanding request");
    let r2 = s.is_expected_response(&resp(tid), &to);
    assert!(r2 == !genuine_first, "C09.O2 genuine reply accepted after a rejected message");
    let r3 = s.is_expected_response(&resp(tid), &to);
    assert!(!r3, "C09.O3 reply consumed at most once");
    kani::cover!(r1);
    kani::cover!(!r1 && spoof_tid == tid && spoof_from.ip() == to.ip());
    kani::cover!(!r1 && spoof_tid == tid && spoof_from.port() == to.port());
    std::mem::forget(s);
}

//@ ob: C09.O2
//@ rss: 8.4
//@ time: 157
//@ tier: quick
//@ cap: 800
//@ standins: tracing
//@ desc: two outstanding requests: a symbolic message is accepted only for the request whose tid and address it carries, removes nothing else, and both genuine replies are still accepted afterwards
//@ bounds: 2 outstanding requests (first destination concrete, second symbolic), symbolic injected tid and source; unwind 7
//@ inv: as C09.O1
//@ stubs: std::time::Instant::now -> symbolic whole-second clock; InflightRequests::update_rtt_estimates -> no-op
//@ functions: KrpcSocket::is_expected_response, InflightRequests::{add,get,remove,find_by_tid}, compare_socket_addr
#[kani::proof]
#[kani::stub(std::time::Instant::now, clock::now)]
#[kani::stub(InflightRequests::update_rtt_estimates, rtt_stub)]
#[kani::unwind(7)]
fn c09_o2_two_requests() {
    clock::set(0);
    let mut s = fake_socket(false);
    let to0 = SocketAddrV4::new([10, 0, 0, 1].into(), 1);
    let to1 = any_specified_addr();
    let tid0 = s.inflight_requests.add(to0);
    let tid1 = s.inflight_requests.add(to1);
    assert!(tid1 != tid0, "C09.O2 transaction ids are distinct");
    let spoof_tid: u32 = kani::any();
    let spoof_from = any_addr();
    let r1 = s.is_expected_response(&resp(spoof_tid), &spoof_from);
    let hits0 = spoof_tid == tid0 && spoof_from == to0;
    let hits1 = spoof_tid == tid1 && spoof_from == to1;
    assert!(r1 == (hits0 || hits1), "C09.O1 accepted iff tid and full address match an outstanding request");
    let a = s.is_expected_response(&resp(tid1), &to1);
    assert!(a == !hits1, "C09.O2 genuine reply accepted after a rejected message");
    let b = s.is_expected_response(&resp(tid0), &to0);
    assert!(b == !hits0, "C09.O2 genuine reply accepted after a rejected message");
    kani::cover!(hits0);
    kani::cover!(hits1);
    kani::cover!(!r1 && spoof_tid == tid1);
    kani::cover!(!r1 && spoof_tid == tid0);
    std::mem::forget(s);
}

//@ ob: C09.O2c
//@ tier: quick
//@ cap: 800
//@ rss: 9.0
//@ time: 252
//@ standins: tracing
//@ desc: three outstanding requests (the middle one symbolic): same claims as C09.O2 for the middle request
//@ bounds: 3 outstanding requests; unwind 8
//@ inv: as C09.O1
//@ stubs: std::time::Instant::now -> symbolic whole-second clock; InflightRequests::update_rtt_estimates -> no-op
//@ functions: KrpcSocket::is_expected_response, InflightRequests::{add,get,remove,find_by_tid}, compare_socket_addr
#[kani::proof]
#[kani::stub(std::time::Instant::now, clock::now)]
#[kani::stub(InflightRequests::update_rtt_estimates, rtt_stub)]
#[kani::unwind(8)]
fn c09_o2c_three_requests() {
    clock::set(0);
    let mut s = fake_socket(false);
    let to0 = SocketAddrV4::new([10, 0, 0, 1].into(), 1);
    let to1 = any_specified_addr();
    let to2 = SocketAddrV4::new([10, 0, 0, 3].into(), 3);
    let tid0 = s.inflight_requests.add(to0);
    let tid1 = s.inflight_requests.add(to1);
    let tid2 = s.inflight_requests.add(to2);
    let spoof_tid: u32 = kani::any();
    let spoof_from = any_addr();
    let r1 = s.is_expected_response(&resp(spoof_tid), &spoof_from);
    let hits0 = spoof_tid == tid0 && spoof_from == to0;
    let hits1 = spoof_tid == tid1 && spoof_from == to1;
    let hits2 = spoof_tid == tid2 && spoof_from == to2;
    assert!(r1 == (hits0 || hits1 || hits2), "C09.O1 accepted iff tid and full address match an outstanding request");
    let a = s.is_expected_response(&resp(tid1), &to1);
    assert!(a == !hits1, "C09.O2 genuine reply accepted after a rejected message");
    let b = s.is_expected_response(&resp(tid2), &to2);
    assert!(b == !hits2, "C09.O2 genuine reply accepted after a rejected message");
    assert!(!s.is_expected_response(&resp(tid1), &to1), "C09.O3 reply consumed at most once");
    kani::cover!(hits1);
    kani::cover!(!r1 && spoof_tid == tid1);
    std::mem::forget(s);
}

//@ ob: C09.O4
//@ rss: 0.4
//@ time: 17
//@ tier: quick
//@ cap: 800
//@ standins: tracing
//@ desc: expiry: a reply (right tid, right address) arriving at or after sent_at + request timeout is rejected; one arriving before is accepted; a late spoof does not resurrect anything
//@ bounds: 1 outstanding request sent at symbolic t0, reply at t0+dt, whole seconds (timeout 500 ms so dt=0 is in time, dt>=1 is late); unwind 6
//@ stubs: std::time::Instant::now -> symbolic whole-second clock; InflightRequests::update_rtt_estimates -> no-op
//@ functions: KrpcSocket::is_expected_response, KrpcSocket::inflight, InflightRequests::{add,get,remove,request_timeout}
#[kani::proof]
#[kani::stub(std::time::Instant::now, clock::now)]
#[kani::stub(InflightRequests::update_rtt_estimates, rtt_stub)]
#[kani::unwind(6)]
fn c09_o4_expired_reply_rejected() {
    let t0: u64 = kani::any();
    let dt: u64 = kani::any();
    kani::assume(t0 < (1 << 40) && dt < (1 << 40));
    clock::set(t0);
    let mut s = fake_socket(false);
    let to = any_specified_addr();
    let tid = s.inflight_requests.add(to);
    clock::set(t0 + dt);
    let still = s.inflight(&tid);
    assert!(still == (dt == 0), "C06.O1 request is in flight exactly until its timeout");
    let r = s.is_expected_response(&resp(tid), &to);
    assert!(r == (dt == 0), "C09.O4 reply accepted iff it arrives before the request expired");
    kani::cover!(dt == 0);
    kani::cover!(dt == 1);
    std::mem::forget(s);
}

//@ ob: C09.O5
//@ tier: quick
//@ cap: 800
//@ standins: tracing
//@ also: C06
//@ desc: expiry with the adaptive timeout and the REAL round-trip estimator: from a state with a non-trivial RTT estimate and deviation (what earlier slow replies leave), a reply with the right tid from the right address is accepted iff it arrives before estimated_rtt + 4 * deviation_rtt as in force when it arrives -- exactly when socket.inflight(tid) still reported the request in flight; the reply's own RTT sample cannot extend its own deadline
//@ bounds: estimated_rtt in {500 ms, 1 s, 2 s}, deviation_rtt in {0, 250 ms, 1 s} (symbolic choice), reply delay dt whole seconds 0..=20; 1 outstanding request; unwind 6
//@ stubs: std::time::Instant::now -> symbolic whole-second clock (update_rtt_estimates is the real f64 code)
//@ functions: KrpcSocket::is_expected_response, KrpcSocket::inflight, InflightRequests::{add,get,remove,request_timeout,update_rtt_estimates}, Duration::{mul_f64,as_secs_f64,from_secs_f64}
#[kani::proof]
#[kani::stub(std::time::Instant::now, clock::now)]
#[kani::unwind(6)]
fn c09_o5_adaptive_timeout_expiry() {
    clock::set(0);
    let mut s = fake_socket(false);
    let e: u8 = kani::any();
    let d: u8 = kani::any();
    s.inflight_requests.estimated_rtt = Duration::from_millis(match e { 0 => 500, 1 => 1000, _ => 2000 });
    s.inflight_requests.deviation_rtt = Duration::from_millis(match d { 0 => 0, 1 => 250, _ => 1000 });
    let to = SocketAddrV4::new([10, 0, 0, 1].into(), 1);
    let tid = s.inflight_requests.add(to);
    let timeout0 = s.inflight_requests.request_timeout();
    let dt: u64 = kani::any();
    kani::assume(dt <= 20);
    clock::set(dt);
    let before = s.inflight(&tid);
    let r = s.is_expected_response(&resp(tid), &to);
    let in_time = Duration::from_secs(dt) < timeout0;
    assert!(before == in_time, "C06.O1 request is in flight exactly until its timeout");
    assert!(r == in_time, "C09.O4 reply accepted iff it arrives before the request expired");
    if !r {
        assert!(s.inflight_requests.request_timeout() == timeout0, "C09.O4 a reply that arrives after expiry has no effect (the request timeout is untouched)");
    }
    let again = s.is_expected_response(&resp(tid), &to);
    assert!(!again, "C09.O3 reply consumed at most once");
    kani::cover!(r && dt >= 2);
    kani::cover!(!r && dt == 1);
    kani::cover!(!r && dt >= 6);
    std::mem::forget(s);
}

//@ ob: C09.K1
//@ rss: 0.5
//@ time: 11
//@ tier: quick
//@ cap: 800
//@ standins: tracing
//@ desc: a request addressed to ANY destination (including 0.0.0.0:p) is answered only from exactly that address
//@ bounds: 1 outstanding request, all destinations including the unspecified IP; unwind 6
//@ stubs: std::time::Instant::now -> symbolic whole-second clock; InflightRequests::update_rtt_estimates -> no-op
//@ functions: KrpcSocket::is_expected_response, compare_socket_addr
#[kani::proof]
#[kani::stub(std::time::Instant::now, clock::now)]
#[kani::stub(InflightRequests::update_rtt_estimates, rtt_stub)]
#[kani::unwind(6)]
fn c09_k1_unspecified_destination() {
    clock::set(0);
    let mut s = fake_socket(false);
    let to = any_addr();
    let tid = s.inflight_requests.add(to);
    let from = any_addr();
    let r = s.is_expected_response(&resp(tid), &from);
    if r {
        assert!(from == to, "C09.K1 reply accepted only from exactly the destination address");
    }
    kani::cover!(r);
    std::mem::forget(s);
}

//@ ob: C06.O1
//@ rss: 1.9
//@ time: 55
//@ tier: quick
//@ cap: 800
//@ standins: tracing
//@ also: C20
//@ desc: expiry is unconditional: with two outstanding requests and one intervening operation (another add, a remove of a symbolic tid, or cleanup at full capacity), a request sent at t is reported in flight at t' iff it was not removed and t' - t < timeout; cleanup() at full capacity drops only expired requests and keeps the order
//@ bounds: 2 requests at symbolic instants t0 <= t1, 1 symbolic operation, query at symbolic t2 >= t1; whole seconds; unwind 7
//@ inv: requests strictly increasing in tid, non-decreasing in sent_at
//@ stubs: std::time::Instant::now -> symbolic whole-second clock; InflightRequests::update_rtt_estimates -> no-op
//@ functions: InflightRequests::{add,get,remove,cleanup,find_by_tid,request_timeout}, KrpcSocket::inflight
#[kani::proof]
#[kani::stub(std::time::Instant::now, clock::now)]
#[kani::stub(InflightRequests::update_rtt_estimates, rtt_stub)]
#[kani::unwind(7)]
fn c06_o1_expiry_unconditional() {
    let t0: u64 = kani::any();
    let d1: u64 = kani::any();
    let d2: u64 = kani::any();
    kani::assume(t0 < (1 << 40) && d1 < (1 << 20) && d2 < (1 << 20));
    let mut s = fake_socket(false);
    // capacity exactly 2 so that cleanup() does not return early
    s.inflight_requests.requests = Vec::with_capacity(2);
    clock::set(t0);
    let a0 = SocketAddrV4::new([10, 0, 0, 1].into(), 1);
    let a1 = SocketAddrV4::new([10, 0, 0, 2].into(), 2);
    let tid0 = s.inflight_requests.add(a0);
    clock::set(t0 + d1);
    let tid1 = s.inflight_requests.add(a1);
    let full = s.inflight_requests.requests.len() == s.inflight_requests.requests.capacity();
    let op: u8 = kani::any();
    let mut removed0 = false;
    let mut removed1 = false;
    clock::set(t0 + d1 + d2);
    if op == 0 {
        s.inflight_requests.cleanup();
        let n = s.inflight_requests.requests.len();
        // only expired requests may be dropped, and they are a prefix
        let exp0 = d1 + d2 >= 1;
        let exp1 = d2 >= 1;
        if full {
            assert!(n <= 2, "C06.O1 cleanup never grows the table");
            if !exp0 { assert!(n == 2, "C06.O1 cleanup keeps unexpired requests"); }
            if !exp1 { assert!(n >= 1 && s.inflight_requests.requests[n - 1].tid == tid1, "C06.O1 cleanup keeps unexpired requests"); }
            if n == 2 { assert!(s.inflight_requests.requests[0].tid == tid0, "C06.O1 cleanup keeps order"); }
        }
    } else if op == 1 {
        let k: u32 = kani::any();
        let r = s.inflight_requests.remove(k);
        removed0 = k == tid0;
        removed1 = k == tid1;
        assert!(r.is_some() == (removed0 || removed1), "C06.O1 remove finds exactly outstanding tids");
    } else {
        let _ = s.inflight_requests.add(SocketAddrV4::new([10, 0, 0, 3].into(), 3));
    }
    let in0 = s.inflight(&tid0);
    let in1 = s.inflight(&tid1);
    assert!(in0 == (!removed0 && d1 + d2 == 0), "C06.O1 request is in flight exactly until its timeout");
    assert!(in1 == (!removed1 && d2 == 0), "C06.O1 request is in flight exactly until its timeout");
    kani::cover!(op == 0 && full && s.inflight_requests.requests.len() == 1);
    kani::cover!(op == 0 && full && s.inflight_requests.requests.len() == 0);
    kani::cover!(op == 1 && removed1);
    kani::cover!(in0 && in1);
    std::mem::forget(s);
}

//@ ob: C18.O3
//@ rss: 0.4
//@ time: 12
//@ tier: quick
//@ cap: 800
//@ standins: tracing
//@ desc: every outgoing request and reply carries read_only = !server_mode (client mode marks its messages read-only, server mode does not), with the version and, on replies, the requester address
//@ bounds: symbolic server_mode, tid, address; unwind 6
//@ stubs: none (request_message / response_message are pure)
//@ functions: KrpcSocket::request_message, KrpcSocket::response_message
#[kani::proof]
#[kani::unwind(6)]
fn c18_o3_read_only_flag() {
    let mode: bool = kani::any();
    let mut s = fake_socket(mode);
    let tid: u32 = kani::any();
    let to = any_addr();
    let q = s.request_message(tid, RequestSpecific { requester_id: Id::from([1u8; 20]), request_type: crate::common::RequestTypeSpecific::Ping });
    assert!(q.read_only == !mode, "C18.O3 requests are read-only exactly in client mode");
    assert!(q.transaction_id == tid && q.requester_ip.is_none(), "C18.O3 request envelope");
    let r = s.response_message(MessageType::Response(ResponseSpecific::Ping(PingResponseArguments { responder_id: Id::from([1u8; 20]) })), to, tid);
    assert!(r.read_only == !mode, "C18.O3 replies are flagged read-only exactly in client mode");
    assert!(r.transaction_id == tid && r.requester_ip == Some(to), "C18.O3 reply envelope");
    kani::cover!(mode);
    kani::cover!(!mode);
    std::mem::forget(s);
    std::mem::forget(q);
    std::mem::forget(r);
}

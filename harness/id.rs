//! C19 — node-id arithmetic.  No stubs, no stand-ins: the real `crc`, `Id`, `FromStr`.
//! Private names used: `Id.0` (via `Id::from`), `from_ipv4_and_r`, `id_prefix_ipv4` (indirectly).
use super::*;
#[allow(unused_imports)]
use crate::verif_env::k as kani;
use crate::verif_env::ref_crc32c;

/// bit-by-bit reference: 160 - (number of leading zero bits of a^b)
fn ref_distance(a: &[u8; 20], b: &[u8; 20]) -> u8 {
    let mut i = 0usize;
    while i < 160 {
        let byte = a[i / 8] ^ b[i / 8];
        let bit = (byte >> (7 - (i % 8))) & 1;
        if bit == 1 {
            return (160 - i) as u8;
        }
        i += 1;
    }
    0
}

//@ ob: C19.O1
//@ rss: 0.7
//@ time: 22
//@ tier: quick
//@ cap: 800
//@ desc: distance(a,b) = 160 - clz160(a^b) against a bit-by-bit reference; symmetric; zero iff equal
//@ bounds: all 2^320 id pairs; unwind 161 (reference loop 160 bits; id loops 20)
//@ functions: Id::distance, Id::xor, Id::leading_zeros
#[kani::proof]
#[kani::unwind(162)]
fn c19_o1_distance_reference() {
    let a: [u8; 20] = kani::env();
    let b: [u8; 20] = kani::env();
    let (ia, ib) = (Id::from(a), Id::from(b));
    let d = ia.distance(&ib);
    assert!(d == ref_distance(&a, &b), "C19.O1 distance equals 160 - common prefix length");
    assert!(d == ib.distance(&ia), "C19.O1 distance symmetric");
    assert!((d == 0) == (a == b), "C19.O1 distance zero iff equal");
    kani::cover!(d == 160);
    kani::cover!(d == 1);
    kani::cover!(d == 77);
}

//@ ob: C19.O1b
//@ rss: 0.7
//@ time: 28
//@ tier: quick
//@ cap: 800
//@ desc: distance is consistent with byte-wise XOR order: distance(a,t) < distance(b,t) implies a^t < b^t (and xor order equal implies distance equal)
//@ bounds: all ids a, b, t; unwind 21
//@ functions: Id::distance, Id::xor, Id::leading_zeros, Ord for Id
#[kani::proof]
#[kani::unwind(21)]
fn c19_o1b_distance_xor_order() {
    let a: [u8; 20] = kani::env();
    let b: [u8; 20] = kani::env();
    let t: [u8; 20] = kani::env();
    let (ia, ib, it) = (Id::from(a), Id::from(b), Id::from(t));
    let (da, db) = (ia.distance(&it), ib.distance(&it));
    let (xa, xb) = (ia.xor(&it), ib.xor(&it));
    if da < db {
        assert!(xa < xb, "C19.O1b smaller distance implies smaller xor");
    }
    if xa <= xb {
        assert!(da <= db, "C19.O1b xor order implies distance order");
    }
    kani::cover!(da < db);
    kani::cover!(da == db && xa < xb);
}

//@ ob: C19.O2
//@ rss: 0.4
//@ time: 5
//@ tier: quick
//@ cap: 800
//@ desc: Id::from_bytes is total and accepts exactly length 20, copying the bytes
//@ bounds: slices of length 0..=22 with symbolic contents; unwind 23
//@ functions: Id::from_bytes
#[kani::proof]
#[kani::unwind(24)]
fn c19_o2_from_bytes_len() {
    let buf: [u8; 22] = kani::env();
    let len: usize = kani::any();
    kani::assume(len <= 22);
    let r = Id::from_bytes(&buf[..len]);
    assert!(r.is_ok() == (len == 20), "C19.O2 from_bytes accepts exactly 20 bytes");
    if let Ok(id) = &r {
        let mut i = 0;
        while i < 20 {
            assert!(id.as_bytes()[i] == buf[i], "C19.O2 from_bytes copies the bytes");
            i += 1;
        }
    }
    kani::cover!(r.is_ok());
    kani::cover!(r.is_err() && len == 21);
    std::mem::forget(r);
}

//@ ob: C19.O3
//@ rss: 0.4
//@ time: 35
//@ tier: quick
//@ cap: 800
//@ desc: is_valid_for_ip(ip) <=> exempt(ip) or first 21 bits of id == first 21 bits of an independent bitwise CRC32C((ip & 0x030f3fff) | r<<29), r = id[19]
//@ bounds: all 2^32 IPs x all 2^160 ids; unwind 21
//@ functions: Id::is_valid_for_ip, id_prefix_ipv4, first_21_bits, crc::Digest (table implementation)
#[kani::proof]
#[kani::unwind(21)]
fn c19_o3_bep42_valid_matches_reference() {
    let ipn: u32 = kani::any();
    let ip = Ipv4Addr::from(ipn);
    let idb: [u8; 20] = kani::env();
    let id = Id::from(idb);
    let o = ip.octets();
    // exemptions written out independently of std's helpers
    let private = o[0] == 10 || (o[0] == 172 && (o[1] & 0xf0) == 16) || (o[0] == 192 && o[1] == 168);
    let link_local = o[0] == 169 && o[1] == 254;
    let loopback = o[0] == 127;
    let exempt = private || link_local || loopback;
    let r = idb[19] as u32;
    let masked = (ipn & 0x030f3fff) | (r << 29);
    let c = ref_crc32c(&masked.to_be_bytes()).to_be_bytes();
    let expect = exempt || (idb[0] == c[0] && idb[1] == c[1] && (idb[2] & 0xf8) == (c[2] & 0xf8));
    assert!(id.is_valid_for_ip(ip) == expect, "C19.O3 is_valid_for_ip agrees with BEP42 reference");
    kani::cover!(!exempt && id.is_valid_for_ip(ip));
    kani::cover!(!exempt && !id.is_valid_for_ip(ip));
    kani::cover!(exempt);
}

//@ ob: C19.O4
//@ rss: 0.4
//@ time: 16
//@ tier: quick
//@ cap: 800
//@ desc: from_ipv4_and_r(bytes, ip, r) (the body of Id::from_ipv4 after its random draw) is valid for ip for every ip/r/random bytes; last byte = r; bytes 3..19 and the low 3 bits of byte 2 untouched
//@ bounds: all inputs; unwind 21
//@ functions: from_ipv4_and_r, id_prefix_ipv4, Id::is_valid_for_ip
#[kani::proof]
#[kani::unwind(21)]
fn c19_o4_from_ipv4_and_r_valid() {
    let ipn: u32 = kani::any();
    let ip = Ipv4Addr::from(ipn);
    let bytes: [u8; 20] = kani::env();
    let r: u8 = kani::any();
    let id = from_ipv4_and_r(bytes, ip, r);
    assert!(id.is_valid_for_ip(ip), "C19.O4 from_ipv4 id is valid for its ip");
    assert!(id.as_bytes()[19] == r, "C19.O4 last byte is r");
    assert!(id.as_bytes()[2] & 7 == bytes[2] & 7, "C19.O4 low bits of byte 2 kept");
    let mut i = 3usize;
    while i < 19 {
        assert!(id.as_bytes()[i] == bytes[i], "C19.O4 untouched bytes preserved");
        i += 1;
    }
    let o = ip.octets();
    kani::cover!(o[0] == 8);
}

//@ ob: C19.O4b
//@ rss: 0.4
//@ time: 17
//@ tier: quick
//@ cap: 800
//@ desc: Id::from_ipv4(ip) through the real function with getrandom stubbed by symbolic bytes: always valid for ip
//@ bounds: all ips, all 21 random bytes; unwind 22
//@ stubs: getrandom::fill -> symbolic bytes
//@ functions: Id::from_ipv4, from_ipv4_and_r, Id::is_valid_for_ip
#[kani::proof]
#[kani::stub(getrandom::fill, crate::verif_env::rnd::fill)]
#[kani::unwind(23)]
fn c19_o4b_from_ipv4_valid() {
    let ipn: u32 = kani::any();
    let ip = Ipv4Addr::from(ipn);
    let r: [u8; 21] = kani::env();
    crate::verif_env::rnd::preload(&r);
    let id = Id::from_ipv4(ip);
    assert!(id.is_valid_for_ip(ip), "C19.O4b Id::from_ipv4(ip) is valid for ip");
    kani::cover!(!(ip.is_private() || ip.is_loopback() || ip.is_link_local()));
}

fn hexval(c: u8) -> Option<u8> {
    if c >= b'0' && c <= b'9' {
        Some(c - b'0')
    } else if c >= b'a' && c <= b'f' {
        Some(c - b'a' + 10)
    } else if c >= b'A' && c <= b'F' {
        Some(c - b'A' + 10)
    } else {
        None
    }
}

//@ ob: C19.O5a
//@ rss: 6.2
//@ time: 258
//@ tier: quick
//@ cap: 800
//@ desc: Id::from_str is total (returns Err, never panics) on every valid UTF-8 string of at most 6 bytes (covers multi-byte characters, signs, odd lengths); none is accepted
//@ bounds: all byte strings of length 0..=6 that are valid UTF-8; unwind 8
//@ stubs: alloc::fmt::format -> empty string (error-message formatting only)
//@ functions: <Id as FromStr>::from_str, u8::from_str_radix, Id::from_bytes
#[kani::proof]
#[kani::stub(alloc::fmt::format, crate::verif_env::fmt_stub)]
#[kani::unwind(8)]
fn c19_o5a_from_str_total_short() {
    let b: [u8; 6] = kani::env();
    let len: usize = kani::any();
    kani::assume(len <= 6);
    if let Ok(s) = std::str::from_utf8(&b[..len]) {
        let r = <Id as FromStr>::from_str(s);
        assert!(r.is_err(), "C19.O5a short string rejected");
        kani::cover!(len == 6 && b[0] >= 0x80);
        kani::cover!(len == 5);
        std::mem::forget(r);
    }
}

//@ ob: C19.O5b
//@ rss: 1.4
//@ time: 59
//@ tier: quick
//@ cap: 800
//@ desc: on 40-byte ASCII strings from_str accepts iff all characters are hex digits, and the value is the hex value -- instance: 36 fixed hex digits (both cases) with one pair at position p in {0, 7, 19} replaced by two symbolic ASCII bytes (covers '+f', '-1', ' 1', 'g0', upper/lower case at every pair position)
//@ bounds: 3 pair positions x 2^14 byte pairs; unwind 22 (20 pairs), per-pair inner loops 4; strings with more than one non-fixed pair are C19.O5d (thorough)
//@ stubs: alloc::fmt::format -> empty string (error-message formatting only)
//@ functions: <Id as FromStr>::from_str, u8::from_str_radix, Id::from_bytes
//@ unwindset: from_ascii_bytes_radix_impl = 4; Iter<'_, u8> as std::iter::Iterator>::try_fold = 4
#[kani::proof]
#[kani::stub(alloc::fmt::format, crate::verif_env::fmt_stub)]
#[kani::unwind(22)]
fn c19_o5b_from_str_ascii40_one_pair() {
    let mut b: [u8; 40] = *b"0123456789abcdefABCDEF0123456789abcdefAB";
    let which: u8 = kani::any();
    let c0: u8 = kani::any();
    let c1: u8 = kani::any();
    kani::assume(c0 < 0x80 && c1 < 0x80);
    // concrete pair positions (first, middle, last): a symbolic index makes every byte of the
    // string symbolic for CBMC
    let p = if which == 0 { 0usize } else if which == 1 { 7 } else { 19 };
    if which == 0 {
        b[0] = c0;
        b[1] = c1;
    } else if which == 1 {
        b[14] = c0;
        b[15] = c1;
    } else {
        b[38] = c0;
        b[39] = c1;
    }
    let s = unsafe { std::str::from_utf8_unchecked(&b) };
    let r = <Id as FromStr>::from_str(s);
    let all_hex = hexval(c0).is_some() && hexval(c1).is_some();
    assert!(r.is_ok() == all_hex, "C19.O5b accepts exactly 40 hex digits");
    if let Ok(id) = &r {
        let mut i = 0usize;
        while i < 20 {
            let hi = hexval(b[2 * i]).unwrap_or(0);
            let lo = hexval(b[2 * i + 1]).unwrap_or(0);
            assert!(id.as_bytes()[i] == hi * 16 + lo, "C19.O5b parsed value is the hex value");
            i += 1;
        }
    }
    kani::cover!(r.is_ok());
    kani::cover!(r.is_err() && p == 19);
    kani::cover!(r.is_err() && c0 == b'+');
    std::mem::forget(r);
}

//@ ob: C19.O5d
//@ tier: quick
//@ cap: 800
//@ rss: 3.0
//@ time: 140
//@ mem: 40
//@ alone: true
//@ desc: on 40-byte ASCII strings from_str accepts iff all 40 characters are hex digits, and the value is the hex value
//@ bounds: all 2^280 40-byte ASCII strings; unwind 22
//@ stubs: alloc::fmt::format -> empty string (error-message formatting only)
//@ functions: <Id as FromStr>::from_str, u8::from_str_radix, Id::from_bytes
//@ unwindset: from_ascii_bytes_radix_impl = 4; Iter<'_, u8> as std::iter::Iterator>::try_fold = 4
#[kani::proof]
#[kani::stub(alloc::fmt::format, crate::verif_env::fmt_stub)]
#[kani::unwind(22)]
fn c19_o5d_from_str_ascii40_full() {
    let b: [u8; 40] = kani::env();
    let mut i = 0usize;
    while i < 20 {
        kani::assume(b[2 * i] < 0x80 && b[2 * i + 1] < 0x80);
        i += 1;
    }
    let s = unsafe { std::str::from_utf8_unchecked(&b) };
    let r = <Id as FromStr>::from_str(s);
    let mut all_hex = true;
    let mut i = 0usize;
    while i < 20 {
        if hexval(b[2 * i]).is_none() || hexval(b[2 * i + 1]).is_none() {
            all_hex = false;
        }
        i += 1;
    }
    assert!(r.is_ok() == all_hex, "C19.O5d accepts exactly 40 hex digits");
    if let Ok(id) = &r {
        let mut i = 0usize;
        while i < 20 {
            let hi = hexval(b[2 * i]).unwrap_or(0);
            let lo = hexval(b[2 * i + 1]).unwrap_or(0);
            assert!(id.as_bytes()[i] == hi * 16 + lo, "C19.O5d parsed value is the hex value");
            i += 1;
        }
    }
    kani::cover!(r.is_ok());
    kani::cover!(r.is_err());
    std::mem::forget(r);
}

//@ ob: C19.O5c
//@ tier: off
//@ cap: 2400
//@ desc: 38-, 39-, 41- and 42-byte ASCII strings are rejected without panic (wrong length, odd length)
//@ bounds: all ASCII strings of those four lengths; unwind 44
//@ stubs: alloc::fmt::format -> empty string
//@ functions: <Id as FromStr>::from_str
#[kani::proof]
#[kani::stub(alloc::fmt::format, crate::verif_env::fmt_stub)]
#[kani::unwind(44)]
fn c19_o5c_from_str_wrong_len() {
    let b: [u8; 42] = kani::env();
    let mut i = 0usize;
    while i < 42 {
        kani::assume(b[i] < 0x80);
        i += 1;
    }
    let which: u8 = kani::any();
    let len = if which == 0 { 38 } else if which == 1 { 39 } else if which == 2 { 41 } else { 42 };
    let s = unsafe { std::str::from_utf8_unchecked(&b[..len]) };
    let r = <Id as FromStr>::from_str(s);
    assert!(r.is_err(), "C19.O5c wrong-length string rejected");
    kani::cover!(len == 42);
    std::mem::forget(r);
}

//@ ob: C19.O6
//@ tier: off
//@ cap: 2400
//@ desc: Display -> from_str round trip with the real formatter: from_str(id.to_string()) == id
//@ bounds: ids with 2 symbolic bytes (positions 0 and 19), the rest fixed 0xab; unwind 42
//@ functions: <Id as Display>::fmt, <Id as FromStr>::from_str
#[kani::proof]
#[kani::unwind(42)]
fn c19_o6_display_roundtrip() {
    let mut b = [0xabu8; 20];
    b[0] = kani::any();
    b[19] = kani::any();
    let id = Id::from(b);
    let s = id.to_string();
    assert!(s.len() == 40, "C19.O6 display is 40 chars");
    let r = <Id as FromStr>::from_str(&s);
    match &r {
        Ok(back) => assert!(*back == id, "C19.O6 display/from_str round trip"),
        Err(_) => assert!(false, "C19.O6 display output parses"),
    }
    kani::cover!(r.is_ok());
    std::mem::forget(r);
    std::mem::forget(s);
}

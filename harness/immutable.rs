//! C02.O3 — `validate_immutable` / `hash_immutable` against SHA1(len ":" v) with an independently
//! built prefix (real sha1_smol on both sides).
use super::*;

fn ref_hash(v: &[u8]) -> [u8; 20] {
    // bencode byte-string framing written out by hand: decimal length, ':', bytes
    let mut enc: Vec<u8> = Vec::new();
    let n = v.len();
    if n >= 100 {
        enc.push(b'0' + (n / 100) as u8);
    }
    if n >= 10 {
        enc.push(b'0' + ((n / 10) % 10) as u8);
    }
    enc.push(b'0' + (n % 10) as u8);
    enc.push(b':');
    enc.extend_from_slice(v);
    let mut h = Sha1::new();
    h.update(&enc);
    h.digest().bytes()
}

fn scenario<const N: usize>() {
    let v: [u8; N] = kani::any();
    let t: [u8; 20] = kani::any();
    let got = validate_immutable(&v, Id::from(t));
    let expect = ref_hash(&v) == t;
    assert!(got == expect, "C02.O3 validate_immutable iff target is SHA1(len:v)");
    assert!(hash_immutable(&v) == ref_hash(&v), "C02.O3 hash_immutable is SHA1 of the bencoded value");
    kani::cover!(got);
    kani::cover!(!got);
}

//@ ob: C02.O3a
//@ tier: thorough
//@ cap: 1800
//@ also: C03
//@ desc: validate_immutable(v, t) <=> t = SHA1(decimal(len v) ":" v), real SHA-1, for every 1-byte value and every target
//@ bounds: v 1 symbolic byte, t 20 symbolic bytes; unwind 82 (SHA-1 rounds)
//@ stubs: none
//@ functions: validate_immutable, hash_immutable, sha1_smol::Sha1
#[kani::proof]
#[kani::unwind(82)]
fn c02_o3a_validate_immutable_len1() {
    scenario::<1>();
}

//@ ob: C02.O3b
//@ tier: thorough
//@ cap: 2700
//@ also: C03
//@ desc: same for every 10-byte value (two-digit length prefix)
//@ bounds: v 10 symbolic bytes; unwind 82
//@ stubs: none
//@ functions: validate_immutable, hash_immutable
#[kani::proof]
#[kani::unwind(82)]
fn c02_o3b_validate_immutable_len10() {
    scenario::<10>();
}

//@ ob: C02.O3c
//@ tier: thorough
//@ cap: 2700
//@ also: C03
//@ desc: same for the empty value
//@ bounds: v empty; unwind 82
//@ stubs: none
//@ functions: validate_immutable, hash_immutable
#[kani::proof]
#[kani::unwind(82)]
fn c02_o3c_validate_immutable_len0() {
    scenario::<0>();
}

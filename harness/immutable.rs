//! C02.O3 — `validate_immutable` / `hash_immutable` against SHA1(len ":" v) with an independently
//! built prefix (real sha1_smol on both sides).
use super::*;
#[allow(unused_imports)]
use crate::verif_env::k as kani;

fn ref_hash(v: &[u8]) -> [u8; 20] {
    // bencode byte-string framing written out by hand: decimal length, ':', bytes
    let mut enc: Vec<u8> = Vec::new();
    let n = v.len();
    if n >= 100 {
        enc.push(b'0' + (n / 100) as u8);
    }
    if n >= 10 {
        enc.push(b'0' + ((n / 10) % 10) as u8);
    }
    enc.push(b'0' + (n % 10) as u8);
    enc.push(b':');
    enc.extend_from_slice(v);
    let mut h = Sha1::new();
    h.update(&enc);
    h.digest().bytes()
}

fn scenario<const N: usize>() {
    let v: [u8; N] = kani::any();
    let t: [u8; 20] = kani::env();
    let got = validate_immutable(&v, Id::from(t));
    let expect = ref_hash(&v) == t;
    assert!(got == expect, "C02.O3 validate_immutable iff target is SHA1(len:v)");
    assert!(hash_immutable(&v) == ref_hash(&v), "C02.O3 hash_immutable is SHA1 of the bencoded value");
    kani::cover!(got);
    kani::cover!(!got);
}

//@ ob: C02.O3a
//@ tier: off
//@ cap: 2400
//@ also: C03
//@ desc: validate_immutable(v, t) <=> t = SHA1(decimal(len v) ":" v), real SHA-1, for every 1-byte value and every target
//@ bounds: v 1 symbolic byte, t 20 symbolic bytes; unwind 82 (SHA-1 rounds)
//@ stubs: none
//@ functions: validate_immutable, hash_immutable, sha1_smol::Sha1
#[kani::proof]
#[kani::unwind(82)]
fn c02_o3a_validate_immutable_len1() {
    scenario::<1>();
}

//@ ob: C02.O3b
//@ tier: off
//@ cap: 3000
//@ also: C03
//@ desc: same for every 10-byte value (two-digit length prefix)
//@ bounds: v 10 symbolic bytes; unwind 82
//@ stubs: none
//@ functions: validate_immutable, hash_immutable
#[kani::proof]
#[kani::unwind(82)]
fn c02_o3b_validate_immutable_len10() {
    scenario::<10>();
}

//@ ob: C02.O3c
//@ tier: off
//@ cap: 3000
//@ also: C03
//@ desc: same for the empty value
//@ bounds: v empty; unwind 82
//@ stubs: none
//@ functions: validate_immutable, hash_immutable
#[kani::proof]
#[kani::unwind(82)]
fn c02_o3c_validate_immutable_len0() {
    scenario::<0>();
}

// ---- C02.O3d: what hash_immutable feeds into SHA-1, at the length boundaries ----
static mut SHA_IN: crate::verif_env::Ghost<[u8; 1100]> = crate::verif_env::ghost(70, [0; 1100]);
static mut SHA_LEN: crate::verif_env::Ghost<usize> = crate::verif_env::ghost(71, 0);
static mut SHA_DIGESTS: crate::verif_env::Ghost<usize> = crate::verif_env::ghost(72, 0);
/// `Sha1::update` as a probe: appends its input to a ghost buffer (memcpy, no loop)
fn sha_update_probe(_s: &mut Sha1, data: &[u8]) {
    unsafe {
        let n = data.len();
        if SHA_LEN.v + n <= 1100 {
            SHA_IN.v[SHA_LEN.v..SHA_LEN.v + n].copy_from_slice(data);
            SHA_LEN.v += n;
        } else {
            crate::verif_env::cut();
        }
    }
}
/// `Sha1::digest` as an uninterpreted value (the hash function itself is C02.O3a-c's subject)
fn sha_digest_probe(_s: &Sha1) -> sha1_smol::Digest {
    unsafe {
        SHA_DIGESTS.v += 1;
        std::mem::transmute::<[u32; 5], sha1_smol::Digest>([7u32; 5])
    }
}

fn fed_exactly(n: usize, v: &[u8; 1000]) {
    unsafe {
        SHA_LEN.v = 0;
    }
    crate::verif_env::fmt_tag::reset();
    let h = hash_immutable(&v[..n]);
    // native replay (no stubs: real formatter, real SHA-1): compare with SHA-1 over the reference
    // encoding "<len>:" || value
    #[cfg(verif_replay)]
    {
        let mut enc = n.to_string().into_bytes();
        enc.push(b':');
        enc.extend_from_slice(&v[..n]);
        let mut hasher = Sha1::new();
        hasher.update(&enc);
        assert!(h == hasher.digest().bytes(), "C02.O3d hash input is the length prefix and the whole value, nothing else");
    }
    #[cfg(not(verif_replay))]
    {
        let (len, buf) = unsafe { (SHA_LEN.v, &SHA_IN.v) };
        assert!(crate::verif_env::fmt_tag::calls() == 1, "C02.O3d one formatted length prefix per hash");
        assert!(len == 2 + n, "C02.O3d hash input is the length prefix and the whole value, nothing else");
        assert!(buf[0] == b'#' && buf[1] == b'1', "C02.O3d hash input starts with the formatted length prefix");
        if n > 0 {
            assert!(buf[2] == v[0] && buf[2 + n - 1] == v[n - 1], "C02.O3d hash input ends with the value bytes, untruncated");
        }
        assert!(h[0] == 0 && h[3] == 7, "C02.O3d the digest of that input is what is returned");
    }
}

//@ ob: C02.O3d
//@ tier: quick
//@ cap: 800
//@ rss: 0.5
//@ time: 7
//@ also: C03
//@ desc: structure of hash_immutable's SHA-1 input at the size boundaries: for values of 0, 1, 999 and 1000 bytes the hasher is fed one formatted length prefix followed by the whole value, verbatim and untruncated (first and last value byte checked), in a single digest whose bytes are returned; the text of the prefix ("<len>:") is pinned by the repo's test_hash_immutable and outside this obligation
//@ bounds: the four stated lengths (concrete), value bytes symbolic at the first and last positions; SHA-1 itself abstracted (Sha1::update records, Sha1::digest uninterpreted: bound by C02.O3a-c); unwind 8
//@ stubs: sha1_smol::Sha1::update -> probe recording the input; sha1_smol::Sha1::digest -> fixed digest; alloc::fmt::format -> numbered tag (core::fmt::write does not finish symbolic execution)
//@ functions: hash_immutable (buffer assembly)
#[kani::proof]
#[kani::stub(sha1_smol::Sha1::update, sha_update_probe)]
#[kani::stub(sha1_smol::Sha1::digest, sha_digest_probe)]
#[kani::stub(alloc::fmt::format, crate::verif_env::fmt_tag::format)]
#[kani::unwind(8)]
fn c02_o3d_hash_input_boundaries() {
    let mut v = [0x61u8; 1000];
    let first: u8 = kani::any();
    let last: u8 = kani::any();
    v[0] = first;
    v[998] = last;
    v[999] = last;
    fed_exactly(0, &v);
    fed_exactly(1, &v);
    fed_exactly(999, &v);
    fed_exactly(1000, &v);
    #[cfg(not(verif_replay))]
    assert!(unsafe { SHA_DIGESTS.v } == 4, "C02.O3d one digest per hash");
    assert!(!crate::verif_env::cut_reached(), "CUT: hasher fed more than 1100 bytes");
    kani::cover!(first != last);
}

//! C02.O4 (forged responses are dropped by the lookup glue), C08.O5 (acks credited to the owning
//! put), C18.O4 (read-only replies ignored) — `Core::handle_response`, one instance per kind.
//! Private names used: `IterativeQuery.inflight_requests/responses` (via helpers), `Core` fields.
//! Stand-ins: `tracing`, `lru`, `vcoll`.
//! @needs: core mutable signed_announce put_query iterative_query
use super::*;
use crate::common::kani_h_mutable as mh;
use crate::common::kani_h_signed_announce as sh;
use crate::common::{
    ErrorSpecific, GetPeersRequestArguments, GetValueRequestArguments, PingResponseArguments,
};
use crate::core::iterative_query::{GetRequestSpecific, IterativeQuery};
use crate::core::kani_h::new_core;
use crate::verif_env::{clock, cut_reached, rnd, uf};

const ME: [u8; 20] = [1u8; 20];
const TID: u32 = 7;

fn vi_cut(_v: &[u8], _t: Id) -> bool {
    crate::verif_env::cut();
    false
}

fn lookup(core: &mut Core, target: Id, req: GetRequestSpecific) {
    let mut q = IterativeQuery::new(Id::from(ME), target, req);
    q.kani_track(TID);
    core.iterative_queries.insert(target, q);
}

fn envelope(tid: u32, ro: bool, rs: ResponseSpecific) -> Message {
    Message { transaction_id: tid, version: None, requester_ip: None, read_only: ro, message_type: MessageType::Response(rs) }
}

//@ ob: C02.O4a
//@ tier: quick
//@ cap: 2700
//@ mem: 20
//@ standins: tracing lru vcoll
//@ desc: get_immutable glue: for an in-flight lookup of target t, a get_immutable response (right or wrong tid, read-only or not) is surfaced and recorded only if hash(v) = t, the tid belongs to the lookup and the reply is not read-only; a value whose hash differs is dropped and never recorded; a read-only reply changes nothing; the responder is added to the routing table only for a reply matching the lookup's tid
//@ bounds: one lookup, one response; v 1 symbolic byte; target = H(v) or another id (H uninterpreted, bound to SHA-1 by C02.O3); symbolic tid match and read_only bits; no closer nodes in the reply; empty routing tables; unwind 26
//@ stubs: hash_immutable -> H; from_dht_message / from_dht_response -> flagged cuts (other kinds); Instant::now; getrandom::fill
//@ functions: Core::handle_response (GetImmutable arm + bookkeeping), validate_immutable, IterativeQuery::{inflight,add_responding_node,response}, RoutingTable::add
#[kani::proof]
#[kani::stub(crate::common::immutable::hash_immutable, uf::h)]
#[kani::stub(crate::common::mutable::MutableItem::from_dht_message, mh::from_dht_message_cut)]
#[kani::stub(crate::common::signed_announce::SignedAnnounce::from_dht_response, sh::from_dht_cut)]
#[kani::stub(std::time::Instant::now, clock::now)]
#[kani::stub(getrandom::fill, rnd::fill)]
#[kani::unwind(26)]
fn c02_o4a_immutable_glue() {
    clock::set(0);
    let digests: [[u8; 20]; 3] = kani::any();
    uf::arm(digests);
    let mut core = new_core(false, vec![]);
    let vb: u8 = kani::any();
    let honest: bool = kani::any();
    let other: [u8; 20] = kani::any();
    let target: Id = if honest { uf::h(&[vb]).into() } else { Id::from(other) };
    let authentic = uf::h(&[vb]) == *target.as_bytes();
    lookup(&mut core, target, GetRequestSpecific::GetValue(GetValueRequestArguments { target, seq: None, salt: None }));
    let tid_ok: bool = kani::any();
    let ro: bool = kani::any();
    let from = SocketAddrV4::new([10, 0, 0, 9].into(), 6881);
    let msg = envelope(if tid_ok { TID } else { TID + 1 }, ro, ResponseSpecific::GetImmutable(GetImmutableResponseArguments {
        responder_id: Id::from([9u8; 20]),
        token: Box::new([1, 2, 3, 4]),
        nodes: None,
        v: Box::new([vb]),
    }));
    let out = core.handle_response(from, msg);
    let recorded = core.iterative_queries.get(&target).map(|q| q.responses().len()).unwrap_or(99);
    let accept = authentic && tid_ok && !ro;
    match &out {
        Some((t, Response::Immutable(v))) => {
            assert!(accept, "C02.O4 only an authentic immutable value surfaces");
            assert!(*t == target && v.len() == 1 && v[0] == vb, "C02.O4 surfaced value is the response's value for the lookup's target");
        }
        Some(_) => assert!(false, "C02.O4 a get_immutable response yields an immutable value"),
        None => assert!(!accept, "C02.O4 an authentic value for an in-flight lookup is delivered"),
    }
    assert!(recorded == accept as usize, "C02.O4 only authentic values are recorded in the lookup");
    let learned = core.routing_table.size();
    if ro || !tid_ok {
        assert!(learned == 0, "C09/C18.O4 replies that are read-only or do not match an in-flight request teach nothing");
    }
    assert!(!cut_reached(), "CUT: another kind's validator reached");
    kani::cover!(accept);
    kani::cover!(!authentic && tid_ok && !ro);
    kani::cover!(authentic && !tid_ok);
    kani::cover!(authentic && ro);
    std::mem::forget(out);
    std::mem::forget(core);
}

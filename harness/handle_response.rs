//! C02.O4 (forged responses are dropped by the lookup glue), C08.O5 (acks credited to the owning
//! put), C18.O4 (read-only replies ignored) — `Core::handle_response`, one instance per kind.
//! Private names used: `IterativeQuery.inflight_requests/responses` (via helpers), `Core` fields.
//! Stand-ins: `tracing`, `lru`, `vcoll`.
//! @needs: core mutable signed_announce put_query iterative_query
use super::*;
#[allow(unused_imports)]
use crate::verif_env::k as kani;
use crate::common::kani_h_mutable as mh;
use crate::common::kani_h_signed_announce as sh;
use crate::common::{
    ErrorSpecific, GetPeersRequestArguments, GetValueRequestArguments, PingResponseArguments,
};
use crate::core::iterative_query::{GetRequestSpecific, IterativeQuery};
use crate::core::kani_h::new_core;
use crate::verif_env::{clock, cut_reached, rnd, uf};

const ME: [u8; 20] = [1u8; 20];
const TID: u32 = 7;

fn vi_cut(_v: &[u8], _t: Id) -> bool {
    crate::verif_env::cut();
    false
}

static mut RT_ADDS: crate::verif_env::Ghost<usize> = crate::verif_env::ghost(80, 0);
/// `RoutingTable::add` as a probe (what is learned from a reply is C09 / C18 / C14's subject; here
/// only *whether* the responder is offered to the table matters)
fn rt_add_probe(_rt: &mut crate::common::RoutingTable, _n: Node) -> bool {
    unsafe { RT_ADDS.v += 1 };
    true
}

fn lookup(core: &mut Core, target: Id, req: GetRequestSpecific) {
    lookup_with(core, target, req, None)
}
/// the query object is completed on the stack (tracked tid, optionally an earlier recorded
/// response) before it moves into the map: a push into a vector that already lives on the heap has
/// a symbolic capacity for CBMC
fn lookup_with(core: &mut Core, target: Id, req: GetRequestSpecific, earlier: Option<Response>) {
    let mut q = IterativeQuery::new(Id::from(ME), target, req);
    q.kani_track(TID);
    if let Some(r) = earlier {
        q.kani_push_response(r);
    }
    core.iterative_queries.insert(target, q);
}

fn envelope(tid: u32, ro: bool, rs: ResponseSpecific) -> Message {
    Message { transaction_id: tid, version: None, requester_ip: None, read_only: ro, message_type: MessageType::Response(rs) }
}

//@ ob: C02.O4a
//@ tier: off
//@ cap: 2700
//@ mem: 20
//@ standins: tracing lru vcoll
//@ desc: get_immutable glue: for an in-flight lookup of target t, a get_immutable response (right or wrong tid, read-only or not) is surfaced and recorded only if hash(v) = t, the tid belongs to the lookup and the reply is not read-only; a value whose hash differs is dropped and never recorded; a read-only reply changes nothing; the responder is added to the routing table only for a reply matching the lookup's tid
//@ bounds: one lookup, one response; v 1 symbolic byte; target = H(v) or another id (H uninterpreted, bound to SHA-1 by C02.O3); symbolic tid match and read_only bits; no closer nodes in the reply; empty routing tables; unwind 26
//@ stubs: hash_immutable -> H; from_dht_message / from_dht_response -> flagged cuts (other kinds); RoutingTable::add -> probe counting calls (what is learned from replies is C09/C14/C18); Instant::now; getrandom::fill
//@ functions: Core::handle_response (GetImmutable arm + bookkeeping), validate_immutable, IterativeQuery::{inflight,add_responding_node,response}, RoutingTable::add
#[kani::proof]
#[kani::stub(crate::common::immutable::hash_immutable, uf::h)]
#[kani::stub(crate::common::mutable::MutableItem::from_dht_message, mh::from_dht_message_cut)]
#[kani::stub(crate::common::signed_announce::SignedAnnounce::from_dht_response, sh::from_dht_cut)]
#[kani::stub(crate::common::routing_table::RoutingTable::add, rt_add_probe)]
#[kani::stub(std::time::Instant::now, clock::now)]
#[kani::stub(getrandom::fill, rnd::fill)]
#[kani::unwind(26)]
fn c02_o4a_immutable_glue() {
    clock::set(0);
    let digests: [[u8; 20]; 3] = kani::env();
    uf::arm(digests);
    let mut core = new_core(false, vec![]);
    let vb: u8 = kani::any();
    let honest: bool = kani::any();
    let other: [u8; 20] = kani::env();
    let target: Id = if honest { uf::h(&[vb]).into() } else { Id::from(other) };
    let authentic = uf::h(&[vb]) == *target.as_bytes();
    lookup(&mut core, target, GetRequestSpecific::GetValue(GetValueRequestArguments { target, seq: None, salt: None }));
    let tid_ok: bool = kani::any();
    let ro: bool = kani::any();
    let from = SocketAddrV4::new([10, 0, 0, 9].into(), 6881);
    let msg = envelope(if tid_ok { TID } else { TID + 1 }, ro, ResponseSpecific::GetImmutable(GetImmutableResponseArguments {
        responder_id: Id::from([9u8; 20]),
        token: Box::new([1, 2, 3, 4]),
        nodes: None,
        v: Box::new([vb]),
    }));
    let out = core.handle_response(from, msg);
    let recorded = core.iterative_queries.get(&target).map(|q| q.responses().len()).unwrap_or(99);
    let accept = authentic && tid_ok && !ro;
    match &out {
        Some((t, Response::Immutable(v))) => {
            assert!(accept, "C02.O4 only an authentic immutable value surfaces");
            assert!(*t == target && v.len() == 1 && v[0] == vb, "C02.O4 surfaced value is the response's value for the lookup's target");
        }
        Some(_) => assert!(false, "C02.O4 a get_immutable response yields an immutable value"),
        None => assert!(!accept, "C02.O4 an authentic value for an in-flight lookup is delivered"),
    }
    assert!(recorded == accept as usize, "C02.O4 only authentic values are recorded in the lookup");
    let learned = unsafe { RT_ADDS.v };
    if ro || !tid_ok {
        assert!(learned == 0, "C09/C18.O4 replies that are read-only or do not match an in-flight request teach nothing");
    }
    assert!(!cut_reached(), "CUT: another kind's validator reached");
    kani::cover!(accept);
    kani::cover!(!authentic && tid_ok && !ro);
    kani::cover!(authentic && !tid_ok);
    kani::cover!(authentic && ro);
    std::mem::forget(out);
    std::mem::forget(core);
}

//@ ob: C02.O4b
//@ tier: off
//@ cap: 3000
//@ mem: 28
//@ standins: tracing lru vcoll
//@ desc: get_mutable glue with an earlier authentic item already recorded in the lookup: a later get_mutable response -- whose key, seq and signature bytes symbolically repeat the recorded item's or differ, around any value -- is surfaced and recorded only if MutableItem::from_dht_message was asked about exactly this response (target of the lookup, the response's k, v, seq, sig, the lookup's salt) and accepted it; otherwise nothing surfaces, the recorded responses are unchanged; nothing is yielded without verification (a replayed signature around another value included)
//@ bounds: one lookup with one recorded item (k = [1;32], sig = [2;64], seq0 symbolic, 1-byte value); one response with symbolic replay bits for key / signature / seq, symbolic 1-byte value, symbolic contract verdicts; tid matches; not read-only; unwind 66
//@ stubs: MutableItem::from_dht_message -> contract (leaf C02.O1a-f) with call counter and last-argument record; validate_immutable, SignedAnnounce::from_dht_response -> flagged cuts; RoutingTable::add -> probe; Instant::now; getrandom::fill
//@ functions: Core::handle_response (GetMutable arm + bookkeeping), IterativeQuery::{inflight,response,responses}
#[kani::proof]
#[kani::stub(crate::common::immutable::validate_immutable, vi_cut)]
#[kani::stub(crate::common::mutable::MutableItem::from_dht_message, mh::from_dht_message_contract)]
#[kani::stub(crate::common::signed_announce::SignedAnnounce::from_dht_response, sh::from_dht_cut)]
#[kani::stub(crate::common::routing_table::RoutingTable::add, rt_add_probe)]
#[kani::stub(std::time::Instant::now, clock::now)]
#[kani::stub(getrandom::fill, rnd::fill)]
#[kani::unwind(66)]
fn c02_o4b_mutable_glue_after_cached_item() {
    clock::set(0);
    let mut core = new_core(false, Vec::with_capacity(1));
    let target = Id::from([5u8; 20]);
    lookup(&mut core, target, GetRequestSpecific::GetValue(GetValueRequestArguments { target, seq: None, salt: None }));
    let from = SocketAddrV4::new([10, 0, 0, 9].into(), 6881);
    let seq0: i64 = kani::any();
    let val0: u8 = kani::any();
    let first = MutableItem::kani_build(target, [1; 32], [2; 64], Box::new([val0]), seq0, None);
    core.iterative_queries.get_mut(&target).unwrap().response(from, Response::Mutable(first));
    // the later response
    let same_k: bool = kani::any();
    let same_sig: bool = kani::any();
    let same_seq: bool = kani::any();
    let other_seq: i64 = kani::any();
    let val: u8 = kani::any();
    let kb: u8 = if same_k { 1 } else { 7 };
    let sb: u8 = if same_sig { 2 } else { 8 };
    let seq = if same_seq { seq0 } else { other_seq };
    let sig_valid: bool = kani::any();
    let target_ok: bool = kani::any();
    unsafe {
        mh::CONTRACT_SIG_VALID.v = sig_valid;
        mh::CONTRACT_TARGET_OK.v = target_ok;
    }
    let msg = envelope(TID, false, ResponseSpecific::GetMutable(crate::common::GetMutableResponseArguments {
        responder_id: Id::from([9u8; 20]),
        token: Box::new([1, 2, 3, 4]),
        nodes: None,
        v: Box::new([val]),
        k: [kb; 32],
        seq,
        sig: [sb; 64],
    }));
    let out = core.handle_response(from, msg);
    let calls = unsafe { mh::CONTRACT_CALLS.v };
    let recorded = core.iterative_queries.get(&target).map(|q| q.responses().len()).unwrap_or(99);
    let accept = sig_valid && target_ok;
    match &out {
        Some((t, Response::Mutable(item))) => {
            assert!(calls == 1 && accept, "C02.O4 a mutable item surfaces only after from_dht_message verified this very response");
            assert!(*t == target && item.seq() == seq && item.value() == &[val], "C02.O4 surfaced item is the response's item for the lookup's target");
            assert!(item.key()[0] == kb && item.key()[31] == kb && item.signature()[0] == sb && item.signature()[63] == sb, "C02.O4 surfaced item is the response's item for the lookup's target");
        }
        Some(_) => assert!(false, "C02.O4 a get_mutable response yields a mutable item"),
        None => assert!(!accept, "C02.O4 an authentic item for an in-flight lookup is delivered"),
    }
    assert!(recorded == 1 + accept as usize, "C02.O4 only verified items are recorded in the lookup");
    assert!(!cut_reached(), "CUT: another kind's validator reached");
    kani::cover!(accept && same_k && same_sig && same_seq && val != val0);
    kani::cover!(!accept && same_k && same_sig && same_seq && val != val0);
    kani::cover!(accept && !same_k);
    std::mem::forget(out);
    std::mem::forget(core);
}

//@ ob: C07.O5
//@ tier: off
//@ cap: 3000
//@ mem: 28
//@ standins: tracing lru vcoll
//@ also: C08
//@ desc: every expected reply's referral is merged into the lookup: for a reply (matching an in-flight request of a get_peers lookup) that is a get_peers reply with values, a no-values reply or a find_node reply, each carrying one closer node, the lookup's candidate list afterwards contains that node -- also when the reply carried values and was surfaced -- and a reply with a token makes the responder a storage candidate carrying that token; a reply whose tid belongs to no lookup merges nothing
//@ bounds: one lookup with one tracked tid; reply kind symbolic among the three; one referral node (concrete id, private IP); tid matching or not (symbolic); unwind 26
//@ stubs: RoutingTable::add -> probe; other kinds' validators -> flagged cuts; Instant::now; getrandom::fill
//@ functions: Core::handle_response (bookkeeping before the payload match), Message::{get_closer_nodes,get_token}, IterativeQuery::{add_candidate,add_responding_node}
#[kani::proof]
#[kani::stub(crate::common::immutable::validate_immutable, vi_cut)]
#[kani::stub(crate::common::mutable::MutableItem::from_dht_message, mh::from_dht_message_cut)]
#[kani::stub(crate::common::signed_announce::SignedAnnounce::from_dht_response, sh::from_dht_cut)]
#[kani::stub(crate::common::routing_table::RoutingTable::add, rt_add_probe)]
#[kani::stub(std::time::Instant::now, clock::now)]
#[kani::stub(getrandom::fill, rnd::fill)]
#[kani::unwind(26)]
fn c07_o5_referrals_merged() {
    clock::set(0);
    let mut core = new_core(false, Vec::with_capacity(1));
    let target = Id::from([5u8; 20]);
    lookup(&mut core, target, GetRequestSpecific::GetPeers(GetPeersRequestArguments { info_hash: target }));
    let from = SocketAddrV4::new([10, 0, 0, 9].into(), 6881);
    let mut rid = [0u8; 20];
    rid[0] = 0x44;
    let referral = Node::new(Id::from(rid), SocketAddrV4::new([10, 0, 0, 77].into(), 7777));
    let kind: u8 = kani::any();
    kani::assume(kind < 3);
    let tid_ok: bool = kani::any();
    let nodes: Box<[Node]> = Box::new([referral.clone()]);
    let responder_id = Id::from([9u8; 20]);
    let rs = match kind {
        0 => ResponseSpecific::GetPeers(crate::common::GetPeersResponseArguments { responder_id, token: Box::new([1, 2, 3, 4]), nodes: Some(nodes), values: vec![SocketAddrV4::new([10, 0, 0, 50].into(), 5000)] }),
        1 => ResponseSpecific::NoValues(crate::common::NoValuesResponseArguments { responder_id, token: Box::new([1, 2, 3, 4]), nodes: Some(nodes) }),
        _ => ResponseSpecific::FindNode(crate::common::FindNodeResponseArguments { responder_id, nodes }),
    };
    let out = core.handle_response(from, envelope(if tid_ok { TID } else { TID + 1 }, false, rs));
    let q = core.iterative_queries.get(&target).unwrap();
    let merged = q.closest().nodes().iter().any(|n| n.id() == referral.id());
    let responders = q.kani_responders_len();
    if tid_ok {
        assert!(merged, "C07.O5 the closer nodes of every expected reply are merged into the lookup's candidates");
        assert!(responders == (kind < 2) as usize, "C08.O3 a responder that sent a token becomes a storage candidate");
        assert!(out.is_some() == (kind == 0), "C02.O4 only a reply with values surfaces a response");
    } else {
        assert!(!merged && responders == 0 && out.is_none(), "C09 a reply that matches no in-flight request has no effect on the lookup");
    }
    assert!(!cut_reached(), "CUT: another kind's validator reached");
    kani::cover!(tid_ok && kind == 0);
    kani::cover!(tid_ok && kind == 2);
    kani::cover!(!tid_ok);
    std::mem::forget(out);
    std::mem::forget(core);
}

static mut ERR_CALLS: crate::verif_env::Ghost<usize> = crate::verif_env::ghost(81, 0);
static mut ERR_TARGET0: crate::verif_env::Ghost<u8> = crate::verif_env::ghost(82, 0);
static mut ERR_CODE: crate::verif_env::Ghost<i32> = crate::verif_env::ghost(83, 0);
/// `PutQuery::error` as a probe: which put was told about which code (the tally itself is the leaf
/// obligations C08.O1a-f; inside a heap-allocated PutQuery its Vec growth has a symbolic capacity,
/// which CBMC cannot afford)
fn put_error_probe(q: &mut crate::core::PutQuery, e: ErrorSpecific) {
    unsafe {
        ERR_CALLS.v += 1;
        ERR_TARGET0.v = q.target.as_bytes()[0];
        ERR_CODE.v = e.code;
    }
    std::mem::forget(e);
}

fn put_reply_scenario(is_err: bool) {
    use crate::common::{AnnouncePeerRequestArguments, PutImmutableRequestArguments, PutRequestSpecific};
    use crate::core::PutQuery;
    clock::set(0);
    let mut core = new_core(false, Vec::with_capacity(1));
    let ta = Id::from([5u8; 20]);
    let tb = Id::from([6u8; 20]);
    let mut qa = PutQuery::new(PutRequestSpecific::AnnouncePeer(AnnouncePeerRequestArguments { info_hash: ta, port: 1, implied_port: None }), None);
    qa.kani_track(7);
    let mut qb = PutQuery::new(PutRequestSpecific::PutImmutable(PutImmutableRequestArguments { target: tb, v: Box::new([7]) }), None);
    qb.kani_track(9);
    core.put_queries.insert(ta, qa);
    core.put_queries.insert(tb, qb);
    let which: u8 = kani::any();
    kani::assume(which < 3);
    let tid = if which == 0 { 7u32 } else if which == 1 { 9 } else { 11 };
    let ro: bool = kani::any();
    let code: i32 = kani::any();
    let from = SocketAddrV4::new([10, 0, 0, 9].into(), 6881);
    // the message kind is fixed per instance (a symbolic enum discriminant makes every move of the
    // message a byte-level case split)
    let mt = if is_err {
        MessageType::Error(ErrorSpecific { code, description: String::new() })
    } else {
        MessageType::Response(ResponseSpecific::Ping(PingResponseArguments { responder_id: Id::from([9u8; 20]) }))
    };
    let msg = Message { transaction_id: tid, version: None, requester_ip: None, read_only: ro, message_type: mt };
    let out = core.handle_response(from, msg);
    assert!(out.is_none(), "C08.O5 a reply to a put surfaces no lookup response");
    let a = core.put_queries.get(&ta).unwrap();
    let b = core.put_queries.get(&tb).unwrap();
    let (a_acks, a_errs) = (a.kani_acks(), a.kani_errors());
    let (b_acks, b_errs) = (b.kani_acks(), b.kani_errors());
    let credit_a = which == 0 && !ro;
    let credit_b = which == 1 && !ro;
    assert!(a_acks == (credit_a && !is_err) as usize, "C08.O5/C18.O4 an ack is credited exactly to the owning put, never from a read-only reply");
    assert!(b_acks == (credit_b && !is_err) as usize, "C08.O5/C18.O4 an ack is credited exactly to the owning put, never from a read-only reply");
    // errors: PutQuery::error is a probe here (who was told what)
    #[cfg(not(verif_replay))]
    let (calls, t0, c) = unsafe { (ERR_CALLS.v, ERR_TARGET0.v, ERR_CODE.v) };
    #[cfg(verif_replay)]
    let (calls, t0, c) = if a_errs.0 > 0 { (a_errs.1, 5u8, a_errs.2) } else if b_errs.0 > 0 { (b_errs.1, 6u8, b_errs.2) } else { (0, 0, 0) };
    if is_err && (credit_a || credit_b) {
        assert!(calls == 1 && c == code && t0 == (if credit_a { 5 } else { 6 }), "C08.O5 an error is handed once, with its code, to the owning put");
    } else {
        assert!(calls == 0, "C08.O5/C18.O4 an error is tallied only for the owning put, never from a read-only reply");
    }
    #[cfg(not(verif_replay))]
    assert!(a_errs.0 == 0 && b_errs.0 == 0, "C08.O5 (tallies untouched: PutQuery::error is a probe)");
    if ro || which == 2 {
        assert!(obs_learned(&core) == 0, "C09/C18.O4 replies that are read-only or match no in-flight request teach nothing");
    }
    assert!(!cut_reached(), "CUT: a lookup validator reached for a put reply");
    kani::cover!(credit_a);
    kani::cover!(credit_b && (!is_err || code == 301));
    kani::cover!(ro && which == 0);
    kani::cover!(which == 2);
    std::mem::forget(out);
    std::mem::forget(core);
}

//@ ob: C08.O5a
//@ tier: quick
//@ cap: 800
//@ rss: 3.0
//@ time: 148
//@ mem: 24
//@ unwindset_raw: memcmp.0:22
//@ standins: tracing lru vcoll
//@ also: C18 C09
//@ desc: acknowledgements are credited only to the put that owns the transaction id, and never when the reply is flagged read-only: with two puts in flight (different targets, one request each) and a ping-shaped ack (tid of put A, of put B or of neither; read-only flag symbolic), exactly the owning put's acknowledgement counter moves, and only if the reply is not read-only; the other put is untouched; nothing is surfaced; a read-only or foreign reply teaches the routing table nothing
//@ bounds: two PutQuery objects (announce_peer for T5, put_immutable for T6) with one tracked tid each; one reply; symbolic tid choice / read-only bit; no lookups active; unwind 4 (containers hold at most 2 entries), memcmp 22 (id compare)
//@ stubs: RoutingTable::add -> probe counting calls; PutQuery::error -> probe recording (put, code) (the tally is C08.O1a-f); lookup validators -> flagged cuts; Instant::now; getrandom::fill
//@ functions: Core::handle_response (read-only guard, put dispatch), PutQuery::{inflight,success}
#[kani::proof]
#[kani::stub(crate::common::immutable::validate_immutable, vi_cut)]
#[kani::stub(crate::common::mutable::MutableItem::from_dht_message, mh::from_dht_message_cut)]
#[kani::stub(crate::common::signed_announce::SignedAnnounce::from_dht_response, sh::from_dht_cut)]
#[kani::stub(crate::common::routing_table::RoutingTable::add, rt_add_probe)]
#[kani::stub(std::time::Instant::now, clock::now)]
#[kani::stub(getrandom::fill, rnd::fill)]
#[kani::stub(crate::core::put_query::PutQuery::error, put_error_probe)]
#[kani::unwind(4)]
fn c08_o5a_put_acks_credited_to_owner() {
    put_reply_scenario(false);
}

//@ ob: C08.O5b
//@ tier: quick
//@ cap: 800
//@ rss: 3.0
//@ time: 132
//@ mem: 24
//@ unwindset_raw: memcmp.0:22
//@ standins: tracing lru vcoll
//@ also: C18 C09 C17
//@ desc: error replies (any i32 code, 301/302 included) are tallied only for the put that owns the transaction id, once, with their code, and never when the reply is flagged read-only; the other put is untouched; nothing is surfaced
//@ bounds: as C08.O5a with an error reply carrying a symbolic i32 code
//@ stubs: as C08.O5a
//@ functions: Core::handle_response (read-only guard, put dispatch), PutQuery::inflight
#[kani::proof]
#[kani::stub(crate::common::immutable::validate_immutable, vi_cut)]
#[kani::stub(crate::common::mutable::MutableItem::from_dht_message, mh::from_dht_message_cut)]
#[kani::stub(crate::common::signed_announce::SignedAnnounce::from_dht_response, sh::from_dht_cut)]
#[kani::stub(crate::common::routing_table::RoutingTable::add, rt_add_probe)]
#[kani::stub(std::time::Instant::now, clock::now)]
#[kani::stub(getrandom::fill, rnd::fill)]
#[kani::stub(crate::core::put_query::PutQuery::error, put_error_probe)]
#[kani::unwind(4)]
fn c08_o5b_put_errors_credited_to_owner() {
    put_reply_scenario(true);
}


// ------------------------------------------------------------------------------------------
// Lookup glue with the lookup's own bookkeeping behind probes.  `IterativeQuery::{response,
// add_candidate, add_responding_node}` grow vectors that live inside a heap-allocated query:
// their capacities are symbolic for CBMC and the real calls cost tens of GB (C02.O4a/b, C07.O5
// above never finished).  Here they record what they were given; what they do with it is
// C07.O1-O3 / C11.O1-O2.  Everything else of `Core::handle_response` runs as compiled.
// ------------------------------------------------------------------------------------------
static mut RESP_CALLS: crate::verif_env::Ghost<usize> = crate::verif_env::ghost(88, 0);
static mut RESP_KIND: crate::verif_env::Ghost<u8> = crate::verif_env::ghost(89, 0);
static mut RESP_B0: crate::verif_env::Ghost<u8> = crate::verif_env::ghost(90, 0);
static mut RESP_LEN: crate::verif_env::Ghost<usize> = crate::verif_env::ghost(91, 0);
static mut CAND_CALLS: crate::verif_env::Ghost<usize> = crate::verif_env::ghost(92, 0);
static mut CAND_ID0: crate::verif_env::Ghost<u8> = crate::verif_env::ghost(93, 0);
static mut RESPONDER_CALLS: crate::verif_env::Ghost<usize> = crate::verif_env::ghost(94, 0);
static mut RESPONDER_TOKEN: crate::verif_env::Ghost<bool> = crate::verif_env::ghost(95, false);

fn describe(r: &Response) -> (u8, u8, usize) {
    match r {
        Response::Peers(p) => (0, 0, p.len()),
        Response::SignedPeers(p) => (1, if p.is_empty() { 0 } else { p[0].signature()[0] }, p.len()),
        Response::Immutable(v) => (2, if v.is_empty() { 0 } else { v[0] }, v.len()),
        Response::Mutable(i) => (3, if i.value().is_empty() { 0 } else { i.value()[0] }, i.value().len()),
    }
}
fn response_probe(_q: &mut IterativeQuery, _from: SocketAddrV4, r: Response) {
    let (k, b, n) = describe(&r);
    unsafe {
        RESP_CALLS.v += 1;
        RESP_KIND.v = k;
        RESP_B0.v = b;
        RESP_LEN.v = n;
    }
    std::mem::forget(r);
}
fn candidate_probe(_q: &mut IterativeQuery, n: Node) {
    unsafe {
        CAND_CALLS.v += 1;
        CAND_ID0.v = n.id().as_bytes()[0];
    }
    std::mem::forget(n);
}
fn responder_probe(_q: &mut IterativeQuery, n: Node) {
    unsafe {
        RESPONDER_CALLS.v += 1;
        RESPONDER_TOKEN.v = n.token().is_some();
    }
    std::mem::forget(n);
}
// Observations: under Kani the probes' records; in a native replay (no stubs there: the real
// bookkeeping runs) the same facts read back from the real objects.
fn obs_responses(core: &Core, target: &Id, base: usize) -> (usize, u8, u8, usize) {
    #[cfg(not(verif_replay))]
    {
        let _ = (core, target, base);
        unsafe { (RESP_CALLS.v, RESP_KIND.v, RESP_B0.v, RESP_LEN.v) }
    }
    #[cfg(verif_replay)]
    {
        match core.iterative_queries.get(target) {
            Some(q) => {
                let rs = q.responses();
                let n = rs.len().saturating_sub(base);
                match rs.last() {
                    Some(r) if n > 0 => {
                        let (k, b, l) = describe(r);
                        (n, k, b, l)
                    }
                    _ => (0, 0, 0, 0),
                }
            }
            None => (0, 0, 0, 0),
        }
    }
}
fn obs_candidates(core: &Core, target: &Id) -> (usize, u8) {
    #[cfg(not(verif_replay))]
    {
        let _ = (core, target);
        unsafe { (CAND_CALLS.v, CAND_ID0.v) }
    }
    #[cfg(verif_replay)]
    {
        match core.iterative_queries.get(target) {
            Some(q) => {
                let ns = q.closest().nodes();
                (ns.len(), if ns.is_empty() { 0 } else { ns[0].id().as_bytes()[0] })
            }
            None => (0, 0),
        }
    }
}
fn obs_responders(core: &Core, target: &Id) -> (usize, bool) {
    #[cfg(not(verif_replay))]
    {
        let _ = (core, target);
        unsafe { (RESPONDER_CALLS.v, RESPONDER_TOKEN.v) }
    }
    #[cfg(verif_replay)]
    {
        match core.iterative_queries.get(target) {
            Some(q) => (q.kani_responders_len(), q.kani_responder_has_token()),
            None => (0, false),
        }
    }
}
fn obs_learned(core: &Core) -> usize {
    #[cfg(not(verif_replay))]
    {
        let _ = core;
        unsafe { RT_ADDS.v }
    }
    #[cfg(verif_replay)]
    {
        core.routing_table.size() + core.signed_peers_routing_table.size()
    }
}

fn tfk_uf(k: &[u8; 32], salt: Option<&[u8]>) -> Id {
    mh::target_uf(k, salt)
}

//@ ob: C02.O4i
//@ tier: quick
//@ cap: 800
//@ rss: 11.7
//@ time: 179
//@ mem: 24
//@ unwindset_raw: memcmp.0:22
//@ standins: tracing lru vcoll
//@ also: C18
//@ desc: get_immutable glue: for an in-flight lookup of target t, a get_immutable response (right or wrong tid, read-only or not, value authentic or not) is surfaced AND recorded in the lookup (one IterativeQuery::response call, with that value) only if hash(v) = t, the tid belongs to the lookup and the reply is not read-only; a value whose hash differs is neither surfaced nor recorded (not even for later joiners of the same lookup); a read-only or foreign reply changes nothing and teaches the routing table nothing; an accepted reply's token makes the responder a storage candidate
//@ bounds: one lookup with one tracked tid, one response; v 1 symbolic byte; target = H(v) or another id (H uninterpreted, bound to SHA-1 by C02.O3); symbolic tid match and read_only bits; no closer nodes in the reply; unwind 5, memcmp 22
//@ stubs: hash_immutable -> H; IterativeQuery::{response, add_candidate, add_responding_node} -> recording probes (their own behaviour: C07.O1-O3, C11); from_dht_message / from_dht_response -> flagged cuts (other kinds); RoutingTable::add -> probe counting calls; Instant::now; getrandom::fill
//@ functions: Core::handle_response (guards, GetImmutable arm, routing-table offer), validate_immutable, IterativeQuery::inflight
#[kani::proof]
#[kani::stub(crate::common::immutable::hash_immutable, uf::h)]
#[kani::stub(crate::common::mutable::MutableItem::from_dht_message, mh::from_dht_message_cut)]
#[kani::stub(crate::common::signed_announce::SignedAnnounce::from_dht_response, sh::from_dht_cut)]
#[kani::stub(crate::common::routing_table::RoutingTable::add, rt_add_probe)]
#[kani::stub(crate::core::iterative_query::IterativeQuery::response, response_probe)]
#[kani::stub(crate::core::iterative_query::IterativeQuery::add_candidate, candidate_probe)]
#[kani::stub(crate::core::iterative_query::IterativeQuery::add_responding_node, responder_probe)]
#[kani::stub(std::time::Instant::now, clock::now)]
#[kani::stub(getrandom::fill, rnd::fill)]
#[kani::unwind(5)]
fn c02_o4i_immutable_glue_probed() {
    clock::set(0);
    let digests: [[u8; 20]; 3] = kani::env();
    uf::arm(digests);
    let mut core = new_core(false, Vec::with_capacity(1));
    let vb: u8 = kani::any();
    let honest: bool = kani::any();
    let other: [u8; 20] = kani::env();
    // the value's hash: H under Kani, the real SHA-1 in a native replay (no stubs there)
    #[cfg(not(verif_replay))]
    let hv: [u8; 20] = uf::h(&[vb]);
    #[cfg(verif_replay)]
    let hv: [u8; 20] = crate::common::hash_immutable(&[vb]);
    let target: Id = if honest { hv.into() } else { Id::from(other) };
    let authentic = hv == *target.as_bytes();
    lookup(&mut core, target, GetRequestSpecific::GetValue(GetValueRequestArguments { target, seq: None, salt: None }));
    let tid_ok: bool = kani::any();
    let ro: bool = kani::any();
    let from = SocketAddrV4::new([10, 0, 0, 9].into(), 6881);
    let msg = envelope(if tid_ok { TID } else { TID + 1 }, ro, ResponseSpecific::GetImmutable(GetImmutableResponseArguments {
        responder_id: Id::from([9u8; 20]),
        token: Box::new([1, 2, 3, 4]),
        nodes: None,
        v: Box::new([vb]),
    }));
    let out = core.handle_response(from, msg);
    let accept = authentic && tid_ok && !ro;
    match &out {
        Some((t, Response::Immutable(v))) => {
            assert!(accept, "C02.O4 only an authentic immutable value surfaces");
            assert!(*t == target && v.len() == 1 && v[0] == vb, "C02.O4 surfaced value is the response's value for the lookup's target");
        }
        Some(_) => assert!(false, "C02.O4 a get_immutable response yields an immutable value"),
        None => assert!(!accept, "C02.O4 an authentic value for an in-flight lookup is delivered"),
    }
    let (calls, kind, b0, n) = obs_responses(&core, &target, 0);
    assert!(calls == accept as usize, "C02.O4 only authentic values are recorded in the lookup");
    if accept {
        assert!(kind == 2 && b0 == vb && n == 1, "C02.O4 the recorded response is the authentic value");
    }
    let learned = obs_learned(&core);
    let (cands, _) = obs_candidates(&core, &target);
    let (responders, has_token) = obs_responders(&core, &target);
    if ro || !tid_ok {
        assert!(learned == 0 && cands == 0 && responders == 0, "C09/C18.O4 replies that are read-only or do not match an in-flight request teach nothing");
    } else {
        assert!(responders == 1 && has_token, "C08.O3 a responder that sent a token becomes a storage candidate");
    }
    assert!(!cut_reached(), "CUT: another kind's validator reached");
    kani::cover!(accept);
    kani::cover!(!authentic && tid_ok && !ro);
    kani::cover!(authentic && !tid_ok);
    kani::cover!(authentic && ro);
    std::mem::forget(out);
    std::mem::forget(core);
}

/// `MutableItem::clone` for the 1-byte values / salts these harnesses use: the boxed slices are
/// re-created with a concrete length (cloning a boxed slice whose length CBMC reads back from the
/// heap is a symbolic-size allocation -- tens of GB)
fn item_clone_1(it: &MutableItem) -> MutableItem {
    let v: Box<[u8]> = if it.value().is_empty() { Box::new([]) } else { Box::new([it.value()[0]]) };
    let salt: Option<Box<[u8]>> = match it.salt() {
        Some(s) => Some(if s.is_empty() { Box::new([]) } else { Box::new([s[0]]) }),
        None => None,
    };
    MutableItem::kani_build(*it.target(), *it.key(), *it.signature(), v, it.seq(), salt)
}

/// `RequestTypeSpecific::clone` restricted to the lookup kind these harnesses build (GetValue): the
/// derived clone of an enum that lives on the heap is executed for every variant, boxed token and
/// value slices of the put variant included (symbolic-size allocations); any other variant here is
/// a flagged cut
fn request_type_clone_getvalue(r: &crate::common::RequestTypeSpecific) -> crate::common::RequestTypeSpecific {
    match r {
        crate::common::RequestTypeSpecific::GetValue(a) => crate::common::RequestTypeSpecific::GetValue(GetValueRequestArguments {
            target: a.target,
            seq: a.seq,
            salt: match &a.salt {
                Some(s) => Some(if s.is_empty() { Box::new([]) } else { Box::new([s[0]]) }),
                None => None,
            },
        }),
        _ => {
            crate::verif_env::cut();
            crate::common::RequestTypeSpecific::Ping
        }
    }
}

fn mutable_glue(with_salt: bool) {
    clock::set(0);
    uf::arm(kani::env());
    let mut core = new_core(false, Vec::with_capacity(1));
    let target = Id::from([5u8; 20]);
    let sb: u8 = kani::any();
    let salt: Option<Box<[u8]>> = if with_salt { Some(Box::new([sb])) } else { None };
    let from = SocketAddrV4::new([10, 0, 0, 9].into(), 6881);
    let seq0: i64 = kani::any();
    let val0: u8 = kani::any();
    let first = MutableItem::kani_build(target, [1; 32], [2; 64], Box::new([val0]), seq0, None);
    lookup_with(&mut core, target, GetRequestSpecific::GetValue(GetValueRequestArguments { target, seq: None, salt }), Some(Response::Mutable(first)));
    // the later response
    let same_k: bool = kani::any();
    let same_sig: bool = kani::any();
    let same_seq: bool = kani::any();
    let other_seq: i64 = kani::any();
    let val: u8 = kani::any();
    let kb: u8 = if same_k { 1 } else { 7 };
    let sgb: u8 = if same_sig { 2 } else { 8 };
    let seq = if same_seq { seq0 } else { other_seq };
    let sig_valid: bool = kani::any();
    let target_ok: bool = kani::any();
    unsafe {
        mh::CONTRACT_SIG_VALID.v = sig_valid;
        mh::CONTRACT_TARGET_OK.v = target_ok;
    }
    let msg = envelope(TID, false, ResponseSpecific::GetMutable(crate::common::GetMutableResponseArguments {
        responder_id: Id::from([9u8; 20]),
        token: Box::new([1, 2, 3, 4]),
        nodes: None,
        v: Box::new([val]),
        k: [kb; 32],
        seq,
        sig: [sgb; 64],
    }));
    let out = core.handle_response(from, msg);
    let calls = unsafe { mh::CONTRACT_CALLS.v };
    let accept = sig_valid && target_ok;
    match &out {
        Some((t, Response::Mutable(item))) => {
            assert!(calls == 1 && accept, "C02.O4 a mutable item surfaces only after from_dht_message verified this very response");
            assert!(*t == target && item.seq() == seq && item.value() == &[val], "C02.O4 surfaced item is the response's item for the lookup's target");
            assert!(item.key()[0] == kb && item.key()[31] == kb && item.signature()[0] == sgb && item.signature()[63] == sgb, "C02.O4 surfaced item is the response's item for the lookup's target");
        }
        Some(_) => assert!(false, "C02.O4 a get_mutable response yields a mutable item"),
        None => assert!(!accept, "C02.O4 an authentic item for an in-flight lookup is delivered"),
    }
    if calls >= 1 {
        let (t0, k0, v0, s, g0, (has, sl, s0)) = unsafe { (REC_TARGET0.v, REC_K0.v, REC_V0.v, REC_SEQ.v, REC_SIG0.v, REC_SALT.v) };
        assert!(calls == 1 && t0 == 5 && k0 == kb && v0 == val && s == seq && g0 == sgb, "C02.O4 from_dht_message is asked about the lookup's target and the response's own k, v, seq, sig");
        assert!(has == with_salt && (!with_salt || (sl == 1 && s0 == sb)), "C02.O4 from_dht_message is asked about the lookup's (requested) salt");
    }
    let (rc, kind, b0, _) = obs_responses(&core, &target, 1);
    assert!(rc == accept as usize, "C02.O4 only verified items are recorded in the lookup");
    if accept {
        assert!(kind == 3 && b0 == val, "C02.O4 the recorded response is the verified item");
    }
    assert!(!cut_reached(), "CUT: another kind's validator reached");
    kani::cover!(accept && same_k && same_sig && same_seq && val != val0);
    kani::cover!(!accept && same_k && same_sig && same_seq && val != val0);
    kani::cover!(accept && !same_k);
    std::mem::forget(out);
    std::mem::forget(core);
}


//@ ob: C02.O4m
//@ tier: quick
//@ cap: 800
//@ rss: 13.7
//@ time: 302
//@ mem: 40
//@ unwindset_raw: memcmp.0:66
//@ standins: tracing lru vcoll
//@ desc: get_mutable glue with an earlier authentic item already recorded in the lookup: a later get_mutable response -- whose key, seq and signature bytes symbolically repeat the recorded item's or differ, around any value -- is surfaced and recorded only if MutableItem::from_dht_message was asked about exactly this response (the lookup's target, the response's k, v, seq, sig, the lookup's salt) and accepted it; otherwise nothing surfaces and nothing is recorded; nothing is yielded without verification (a replayed signature around another value included)
//@ bounds: one lookup (GetValue, no salt) with one recorded item (k = [1;32], sig = [2;64], seq0 symbolic, 1-byte value); one response with symbolic replay bits for key / signature / seq, symbolic 1-byte value, symbolic contract verdicts; tid matches; not read-only; unwind 5, memcmp 66
//@ stubs: MutableItem::from_dht_message -> contract (leaf C02.O1u/O1s/O1t) with call counter and argument record; <MutableItem as Clone>::clone -> field-wise copy with concrete 1-byte boxes; <RequestTypeSpecific as Clone>::clone -> GetValue variant only (others: flagged cut); MutableItem::target_from_key -> uninterpreted (reached only if the glue builds items itself); IterativeQuery::{response, add_candidate, add_responding_node} -> recording probes; validate_immutable, SignedAnnounce::from_dht_response -> flagged cuts; RoutingTable::add -> probe; Instant::now; getrandom::fill
//@ functions: Core::handle_response (GetMutable arm), IterativeQuery::{inflight,responses}
#[kani::proof]
#[kani::stub(crate::common::immutable::validate_immutable, vi_cut)]
#[kani::stub(crate::common::mutable::MutableItem::from_dht_message, from_dht_message_contract_rec)]
#[kani::stub(crate::common::mutable::MutableItem::target_from_key, tfk_uf)]
#[kani::stub(crate::common::signed_announce::SignedAnnounce::from_dht_response, sh::from_dht_cut)]
#[kani::stub(crate::common::routing_table::RoutingTable::add, rt_add_probe)]
#[kani::stub(crate::core::iterative_query::IterativeQuery::response, response_probe)]
#[kani::stub(crate::core::iterative_query::IterativeQuery::add_candidate, candidate_probe)]
#[kani::stub(crate::core::iterative_query::IterativeQuery::add_responding_node, responder_probe)]
#[kani::stub(std::time::Instant::now, clock::now)]
#[kani::stub(getrandom::fill, rnd::fill)]
#[kani::stub(<crate::common::MutableItem as std::clone::Clone>::clone, item_clone_1)]
#[kani::stub(<crate::common::RequestTypeSpecific as std::clone::Clone>::clone, request_type_clone_getvalue)]
#[kani::unwind(5)]
fn c02_o4m_mutable_glue_probed() {
    mutable_glue(false);
}

//@ ob: C02.O4n
//@ tier: quick
//@ cap: 800
//@ rss: 14.0
//@ time: 306
//@ mem: 40
//@ unwindset_raw: memcmp.0:66
//@ standins: tracing lru vcoll
//@ desc: get_mutable glue with an earlier authentic item already recorded in the lookup: a later get_mutable response -- whose key, seq and signature bytes symbolically repeat the recorded item's or differ, around any value -- is surfaced and recorded only if MutableItem::from_dht_message was asked about exactly this response (the lookup's target, the response's k, v, seq, sig, the lookup's salt) and accepted it; otherwise nothing surfaces and nothing is recorded; nothing is yielded without verification (a replayed signature around another value included)
//@ bounds: one lookup (GetValue with a one-byte symbolic salt: the salt handed to from_dht_message must be the requested one) with one recorded item (k = [1;32], sig = [2;64], seq0 symbolic, 1-byte value); one response with symbolic replay bits for key / signature / seq, symbolic 1-byte value, symbolic contract verdicts; tid matches; not read-only; unwind 5, memcmp 66
//@ stubs: MutableItem::from_dht_message -> contract (leaf C02.O1u/O1s/O1t) with call counter and argument record; <MutableItem as Clone>::clone -> field-wise copy with concrete 1-byte boxes; <RequestTypeSpecific as Clone>::clone -> GetValue variant only (others: flagged cut); MutableItem::target_from_key -> uninterpreted (reached only if the glue builds items itself); IterativeQuery::{response, add_candidate, add_responding_node} -> recording probes; validate_immutable, SignedAnnounce::from_dht_response -> flagged cuts; RoutingTable::add -> probe; Instant::now; getrandom::fill
//@ functions: Core::handle_response (GetMutable arm), IterativeQuery::{inflight,responses}
#[kani::proof]
#[kani::stub(crate::common::immutable::validate_immutable, vi_cut)]
#[kani::stub(crate::common::mutable::MutableItem::from_dht_message, from_dht_message_contract_rec)]
#[kani::stub(crate::common::mutable::MutableItem::target_from_key, tfk_uf)]
#[kani::stub(crate::common::signed_announce::SignedAnnounce::from_dht_response, sh::from_dht_cut)]
#[kani::stub(crate::common::routing_table::RoutingTable::add, rt_add_probe)]
#[kani::stub(crate::core::iterative_query::IterativeQuery::response, response_probe)]
#[kani::stub(crate::core::iterative_query::IterativeQuery::add_candidate, candidate_probe)]
#[kani::stub(crate::core::iterative_query::IterativeQuery::add_responding_node, responder_probe)]
#[kani::stub(std::time::Instant::now, clock::now)]
#[kani::stub(getrandom::fill, rnd::fill)]
#[kani::stub(<crate::common::MutableItem as std::clone::Clone>::clone, item_clone_1)]
#[kani::stub(<crate::common::RequestTypeSpecific as std::clone::Clone>::clone, request_type_clone_getvalue)]
#[kani::unwind(5)]
fn c02_o4n_mutable_glue_salted() {
    mutable_glue(true);
}

static mut REC_TARGET0: crate::verif_env::Ghost<u8> = crate::verif_env::ghost(96, 0);
static mut REC_K0: crate::verif_env::Ghost<u8> = crate::verif_env::ghost(97, 0);
static mut REC_V0: crate::verif_env::Ghost<u8> = crate::verif_env::ghost(98, 0);
static mut REC_SEQ: crate::verif_env::Ghost<i64> = crate::verif_env::ghost(99, 0);
static mut REC_SIG0: crate::verif_env::Ghost<u8> = crate::verif_env::ghost(100, 0);
static mut REC_SALT: crate::verif_env::Ghost<(bool, usize, u8)> = crate::verif_env::ghost(101, (false, 0, 0));
/// contract of from_dht_message that also records what it was asked about
fn from_dht_message_contract_rec(target: Id, key: &[u8], v: Box<[u8]>, seq: i64, signature: &[u8], salt: Option<Box<[u8]>>) -> Result<MutableItem, crate::common::MutableError> {
    unsafe {
        REC_TARGET0.v = target.as_bytes()[0];
        REC_K0.v = if key.is_empty() { 0 } else { key[0] };
        REC_V0.v = if v.is_empty() { 0 } else { v[0] };
        REC_SEQ.v = seq;
        REC_SIG0.v = if signature.is_empty() { 0 } else { signature[0] };
        REC_SALT.v = match &salt {
            Some(s) => (true, s.len(), if s.is_empty() { 0 } else { s[0] }),
            None => (false, 0, 0),
        };
    }
    mh::from_dht_message_contract(target, key, v, seq, signature, salt)
}

//@ ob: C02.O4s
//@ tier: quick
//@ cap: 800
//@ rss: 6.0
//@ time: 70
//@ mem: 24
//@ unwindset_raw: memcmp.0:66
//@ standins: tracing lru vcoll
//@ desc: get_signed_peers glue: a response carrying two signed announcements is surfaced and recorded only if SignedAnnounce::from_dht_response accepted every one of them for the lookup's info-hash (each asked with the entry's own k, t, sig); one invalid entry => nothing surfaces, nothing is recorded and the responder is not offered to the routing table; the surfaced list carries exactly the verified entries (key, timestamp, signature as verified) in order
//@ bounds: one GetSignedPeers lookup, one response with 2 entries (keys [3;32]/[4;32], symbolic u64 timestamps, signatures [5;64]/[6;64]), symbolic per-entry verdicts; tid matches; not read-only; unwind 4, memcmp 66
//@ stubs: SignedAnnounce::from_dht_response -> contract (leaf C02.O2) with per-call verdicts; IterativeQuery::{response, add_candidate, add_responding_node} -> recording probes; other validators -> flagged cuts; RoutingTable::add -> probe; Instant::now; getrandom::fill
//@ functions: Core::handle_response (GetSignedPeers arm)
#[kani::proof]
#[kani::stub(crate::common::immutable::validate_immutable, vi_cut)]
#[kani::stub(crate::common::mutable::MutableItem::from_dht_message, mh::from_dht_message_cut)]
#[kani::stub(crate::common::signed_announce::SignedAnnounce::from_dht_response, sh::from_dht_contract)]
#[kani::stub(crate::common::routing_table::RoutingTable::add, rt_add_probe)]
#[kani::stub(crate::core::iterative_query::IterativeQuery::response, response_probe)]
#[kani::stub(crate::core::iterative_query::IterativeQuery::add_candidate, candidate_probe)]
#[kani::stub(crate::core::iterative_query::IterativeQuery::add_responding_node, responder_probe)]
#[kani::stub(std::time::Instant::now, clock::now)]
#[kani::stub(getrandom::fill, rnd::fill)]
#[kani::unwind(4)]
fn c02_o4s_signed_peers_glue_probed() {
    clock::set(0);
    let mut core = new_core(false, Vec::with_capacity(1));
    let target = Id::from([5u8; 20]);
    lookup(&mut core, target, GetRequestSpecific::GetSignedPeers(GetPeersRequestArguments { info_hash: target }));
    let from = SocketAddrV4::new([10, 0, 0, 9].into(), 6881);
    let ok0: bool = kani::any();
    let ok1: bool = kani::any();
    unsafe { sh::CONTRACT_OK.v = [ok0, ok1, false] };
    let t0: u64 = kani::any();
    let t1: u64 = kani::any();
    let msg = envelope(TID, false, ResponseSpecific::GetSignedPeers(crate::common::GetSignedPeersResponseArguments {
        responder_id: Id::from([9u8; 20]),
        token: Box::new([1, 2, 3, 4]),
        nodes: None,
        peers: vec![([3u8; 32], t0, [5u8; 64]), ([4u8; 32], t1, [6u8; 64])],
    }));
    let out = core.handle_response(from, msg);
    let calls = unsafe { sh::CONTRACT_CALLS.v };
    let accept = ok0 && ok1;
    match &out {
        Some((t, Response::SignedPeers(l))) => {
            assert!(accept && calls == 2, "C02.O4 signed peers surface only if every entry was verified");
            assert!(*t == target && l.len() == 2, "C02.O4 the surfaced list is the verified list");
            assert!(l[0].key()[0] == 3 && l[0].timestamp() == t0 && l[0].signature()[0] == 5 && l[1].key()[0] == 4 && l[1].timestamp() == t1 && l[1].signature()[63] == 6, "C02.O4 surfaced announcements are exactly what was verified (key, timestamp, signature)");
        }
        Some(_) => assert!(false, "C02.O4 a get_signed_peers response yields signed peers"),
        None => assert!(!accept, "C02.O4 verified signed peers for an in-flight lookup are delivered"),
    }
    let (rc, kind, _, n) = obs_responses(&core, &target, 0);
    assert!(rc == accept as usize, "C02.O4 only fully verified lists are recorded in the lookup");
    if accept {
        assert!(kind == 1 && n == 2, "C02.O4 the recorded response is the verified list");
    } else {
        assert!(obs_learned(&core) == 0, "C02.O4 a responder that sent an invalid record is not added to the routing table");
    }
    assert!(!cut_reached(), "CUT: another kind's validator reached");
    kani::cover!(accept);
    kani::cover!(ok0 && !ok1);
    kani::cover!(!ok0);
    std::mem::forget(out);
    std::mem::forget(core);
}

//@ ob: C07.O5p
//@ tier: quick
//@ cap: 800
//@ rss: 12.0
//@ time: 320
//@ mem: 40
//@ unwindset_raw: memcmp.0:22
//@ standins: tracing lru vcoll
//@ also: C08
//@ desc: every expected reply's referral is offered to the lookup: for a reply matching an in-flight request of a get_peers lookup -- a get_peers reply with values, a no-values reply or a find_node reply, each carrying one closer node -- IterativeQuery::add_candidate is called once with that node (also when the reply carried values and was surfaced), and a reply with a token makes the responder a storage candidate carrying a token; a reply whose tid belongs to no lookup, or a read-only reply, offers nothing
//@ bounds: one lookup with one tracked tid; reply kind fixed per call (three kinds in one harness, symbolic choice); one referral node (concrete id 0x44.., private IP); tid matching or not, read-only or not (symbolic); unwind 4, memcmp 22
//@ stubs: IterativeQuery::{response, add_candidate, add_responding_node} -> recording probes (what the lookup does with candidates: C07.O1-O3, C11.O1-O2); RoutingTable::add -> probe; other kinds' validators -> flagged cuts; Instant::now; getrandom::fill
//@ functions: Core::handle_response (bookkeeping before the payload match), Message::{get_closer_nodes,get_token}
#[kani::proof]
#[kani::stub(crate::common::immutable::validate_immutable, vi_cut)]
#[kani::stub(crate::common::mutable::MutableItem::from_dht_message, mh::from_dht_message_cut)]
#[kani::stub(crate::common::signed_announce::SignedAnnounce::from_dht_response, sh::from_dht_cut)]
#[kani::stub(crate::common::routing_table::RoutingTable::add, rt_add_probe)]
#[kani::stub(crate::core::iterative_query::IterativeQuery::response, response_probe)]
#[kani::stub(crate::core::iterative_query::IterativeQuery::add_candidate, candidate_probe)]
#[kani::stub(crate::core::iterative_query::IterativeQuery::add_responding_node, responder_probe)]
#[kani::stub(std::time::Instant::now, clock::now)]
#[kani::stub(getrandom::fill, rnd::fill)]
#[kani::unwind(4)]
fn c07_o5p_referrals_offered() {
    clock::set(0);
    let mut core = new_core(false, Vec::with_capacity(1));
    let target = Id::from([5u8; 20]);
    lookup(&mut core, target, GetRequestSpecific::GetPeers(GetPeersRequestArguments { info_hash: target }));
    let from = SocketAddrV4::new([10, 0, 0, 9].into(), 6881);
    let mut rid = [0u8; 20];
    rid[0] = 0x44;
    let referral = Node::new(Id::from(rid), SocketAddrV4::new([10, 0, 0, 77].into(), 7777));
    let kind: u8 = kani::any();
    kani::assume(kind < 3);
    let tid_ok: bool = kani::any();
    let ro: bool = kani::any();
    let nodes: Box<[Node]> = Box::new([referral.clone()]);
    let responder_id = Id::from([9u8; 20]);
    let rs = if kind == 0 {
        ResponseSpecific::GetPeers(crate::common::GetPeersResponseArguments { responder_id, token: Box::new([1, 2, 3, 4]), nodes: Some(nodes), values: vec![SocketAddrV4::new([10, 0, 0, 50].into(), 5000)] })
    } else if kind == 1 {
        ResponseSpecific::NoValues(crate::common::NoValuesResponseArguments { responder_id, token: Box::new([1, 2, 3, 4]), nodes: Some(nodes) })
    } else {
        ResponseSpecific::FindNode(crate::common::FindNodeResponseArguments { responder_id, nodes })
    };
    let out = core.handle_response(from, envelope(if tid_ok { TID } else { TID + 1 }, ro, rs));
    let (cands, id0) = obs_candidates(&core, &target);
    let (responders, has_token) = obs_responders(&core, &target);
    let (rc, rk, _, rn) = obs_responses(&core, &target, 0);
    if tid_ok && !ro {
        assert!(cands == 1 && id0 == 0x44, "C07.O5 the closer nodes of every expected reply are merged into the lookup's candidates");
        assert!(responders == (kind < 2) as usize && (kind >= 2 || has_token), "C08.O3 a responder that sent a token becomes a storage candidate");
        assert!(out.is_some() == (kind == 0) && rc == (kind == 0) as usize, "C02.O4 only a reply with values surfaces (and records) a response");
        if kind == 0 {
            assert!(rk == 0 && rn == 1, "C02.O4 the recorded response is the reply's peer list");
        }
    } else {
        assert!(cands == 0 && responders == 0 && rc == 0 && out.is_none(), "C09/C18.O4 a reply that matches no in-flight request, or is read-only, has no effect on the lookup");
        assert!(obs_learned(&core) == 0, "C09/C18.O4 replies that are read-only or do not match an in-flight request teach nothing");
    }
    assert!(!cut_reached(), "CUT: another kind's validator reached");
    kani::cover!(tid_ok && !ro && kind == 0);
    kani::cover!(tid_ok && !ro && kind == 2);
    kani::cover!(!tid_ok);
    kani::cover!(ro && tid_ok);
    std::mem::forget(out);
    std::mem::forget(core);
}

//! C02.O4 (forged responses are dropped by the lookup glue), C08.O5 (acks credited to the owning
//! put), C18.O4 (read-only replies ignored) — `Core::handle_response`, one instance per kind.
//! Private names used: `IterativeQuery.inflight_requests/responses` (via helpers), `Core` fields.
//! Stand-ins: `tracing`, `lru`, `vcoll`.
//! @needs: core mutable signed_announce put_query iterative_query
use super::*;
#[allow(unused_imports)]
use crate::verif_env::k as kani;
use crate::common::kani_h_mutable as mh;
use crate::common::kani_h_signed_announce as sh;
use crate::common::{
    ErrorSpecific, GetPeersRequestArguments, GetValueRequestArguments, PingResponseArguments,
};
use crate::core::iterative_query::{GetRequestSpecific, IterativeQuery};
use crate::core::kani_h::new_core;
use crate::verif_env::{clock, cut_reached, rnd, uf};

const ME: [u8; 20] = [1u8; 20];
const TID: u32 = 7;

fn vi_cut(_v: &[u8], _t: Id) -> bool {
    crate::verif_env::cut();
    false
}

static mut RT_ADDS: crate::verif_env::Ghost<usize> = crate::verif_env::ghost(80, 0);
/// `RoutingTable::add` as a probe (what is learned from a reply is C09 / C18 / C14's subject; here
/// only *whether* the responder is offered to the table matters)
fn rt_add_probe(_rt: &mut crate::common::RoutingTable, _n: Node) -> bool {
    unsafe { RT_ADDS.v += 1 };
    true
}

fn lookup(core: &mut Core, target: Id, req: GetRequestSpecific) {
    let mut q = IterativeQuery::new(Id::from(ME), target, req);
    q.kani_track(TID);
    core.iterative_queries.insert(target, q);
}

fn envelope(tid: u32, ro: bool, rs: ResponseSpecific) -> Message {
    Message { transaction_id: tid, version: None, requester_ip: None, read_only: ro, message_type: MessageType::Response(rs) }
}

//@ ob: C02.O4a
//@ tier: off
//@ cap: 2700
//@ mem: 20
//@ standins: tracing lru vcoll
//@ desc: get_immutable glue: for an in-flight lookup of target t, a get_immutable response (right or wrong tid, read-only or not) is surfaced and recorded only if hash(v) = t, the tid belongs to the lookup and the reply is not read-only; a value whose hash differs is dropped and never recorded; a read-only reply changes nothing; the responder is added to the routing table only for a reply matching the lookup's tid
//@ bounds: one lookup, one response; v 1 symbolic byte; target = H(v) or another id (H uninterpreted, bound to SHA-1 by C02.O3); symbolic tid match and read_only bits; no closer nodes in the reply; empty routing tables; unwind 26
//@ stubs: hash_immutable -> H; from_dht_message / from_dht_response -> flagged cuts (other kinds); RoutingTable::add -> probe counting calls (what is learned from replies is C09/C14/C18); Instant::now; getrandom::fill
//@ functions: Core::handle_response (GetImmutable arm + bookkeeping), validate_immutable, IterativeQuery::{inflight,add_responding_node,response}, RoutingTable::add
#[kani::proof]
#[kani::stub(crate::common::immutable::hash_immutable, uf::h)]
#[kani::stub(crate::common::mutable::MutableItem::from_dht_message, mh::from_dht_message_cut)]
#[kani::stub(crate::common::signed_announce::SignedAnnounce::from_dht_response, sh::from_dht_cut)]
#[kani::stub(crate::common::routing_table::RoutingTable::add, rt_add_probe)]
#[kani::stub(std::time::Instant::now, clock::now)]
#[kani::stub(getrandom::fill, rnd::fill)]
#[kani::unwind(26)]
fn c02_o4a_immutable_glue() {
    clock::set(0);
    let digests: [[u8; 20]; 3] = kani::any();
    uf::arm(digests);
    let mut core = new_core(false, vec![]);
    let vb: u8 = kani::any();
    let honest: bool = kani::any();
    let other: [u8; 20] = kani::any();
    let target: Id = if honest { uf::h(&[vb]).into() } else { Id::from(other) };
    let authentic = uf::h(&[vb]) == *target.as_bytes();
    lookup(&mut core, target, GetRequestSpecific::GetValue(GetValueRequestArguments { target, seq: None, salt: None }));
    let tid_ok: bool = kani::any();
    let ro: bool = kani::any();
    let from = SocketAddrV4::new([10, 0, 0, 9].into(), 6881);
    let msg = envelope(if tid_ok { TID } else { TID + 1 }, ro, ResponseSpecific::GetImmutable(GetImmutableResponseArguments {
        responder_id: Id::from([9u8; 20]),
        token: Box::new([1, 2, 3, 4]),
        nodes: None,
        v: Box::new([vb]),
    }));
    let out = core.handle_response(from, msg);
    let recorded = core.iterative_queries.get(&target).map(|q| q.responses().len()).unwrap_or(99);
    let accept = authentic && tid_ok && !ro;
    match &out {
        Some((t, Response::Immutable(v))) => {
            assert!(accept, "C02.O4 only an authentic immutable value surfaces");
            assert!(*t == target && v.len() == 1 && v[0] == vb, "C02.O4 surfaced value is the response's value for the lookup's target");
        }
        Some(_) => assert!(false, "C02.O4 a get_immutable response yields an immutable value"),
        None => assert!(!accept, "C02.O4 an authentic value for an in-flight lookup is delivered"),
    }
    assert!(recorded == accept as usize, "C02.O4 only authentic values are recorded in the lookup");
    let learned = unsafe { RT_ADDS.v };
    if ro || !tid_ok {
        assert!(learned == 0, "C09/C18.O4 replies that are read-only or do not match an in-flight request teach nothing");
    }
    assert!(!cut_reached(), "CUT: another kind's validator reached");
    kani::cover!(accept);
    kani::cover!(!authentic && tid_ok && !ro);
    kani::cover!(authentic && !tid_ok);
    kani::cover!(authentic && ro);
    std::mem::forget(out);
    std::mem::forget(core);
}

//@ ob: C02.O4b
//@ tier: off
//@ cap: 3000
//@ mem: 28
//@ standins: tracing lru vcoll
//@ desc: get_mutable glue with an earlier authentic item already recorded in the lookup: a later get_mutable response -- whose key, seq and signature bytes symbolically repeat the recorded item's or differ, around any value -- is surfaced and recorded only if MutableItem::from_dht_message was asked about exactly this response (target of the lookup, the response's k, v, seq, sig, the lookup's salt) and accepted it; otherwise nothing surfaces, the recorded responses are unchanged; nothing is yielded without verification (a replayed signature around another value included)
//@ bounds: one lookup with one recorded item (k = [1;32], sig = [2;64], seq0 symbolic, 1-byte value); one response with symbolic replay bits for key / signature / seq, symbolic 1-byte value, symbolic contract verdicts; tid matches; not read-only; unwind 66
//@ stubs: MutableItem::from_dht_message -> contract (leaf C02.O1a-f) with call counter and last-argument record; validate_immutable, SignedAnnounce::from_dht_response -> flagged cuts; RoutingTable::add -> probe; Instant::now; getrandom::fill
//@ functions: Core::handle_response (GetMutable arm + bookkeeping), IterativeQuery::{inflight,response,responses}
#[kani::proof]
#[kani::stub(crate::common::immutable::validate_immutable, vi_cut)]
#[kani::stub(crate::common::mutable::MutableItem::from_dht_message, mh::from_dht_message_contract)]
#[kani::stub(crate::common::signed_announce::SignedAnnounce::from_dht_response, sh::from_dht_cut)]
#[kani::stub(crate::common::routing_table::RoutingTable::add, rt_add_probe)]
#[kani::stub(std::time::Instant::now, clock::now)]
#[kani::stub(getrandom::fill, rnd::fill)]
#[kani::unwind(66)]
fn c02_o4b_mutable_glue_after_cached_item() {
    clock::set(0);
    let mut core = new_core(false, Vec::with_capacity(1));
    let target = Id::from([5u8; 20]);
    lookup(&mut core, target, GetRequestSpecific::GetValue(GetValueRequestArguments { target, seq: None, salt: None }));
    let from = SocketAddrV4::new([10, 0, 0, 9].into(), 6881);
    let seq0: i64 = kani::any();
    let val0: u8 = kani::any();
    let first = MutableItem::kani_build(target, [1; 32], [2; 64], Box::new([val0]), seq0, None);
    core.iterative_queries.get_mut(&target).unwrap().response(from, Response::Mutable(first));
    // the later response
    let same_k: bool = kani::any();
    let same_sig: bool = kani::any();
    let same_seq: bool = kani::any();
    let other_seq: i64 = kani::any();
    let val: u8 = kani::any();
    let kb: u8 = if same_k { 1 } else { 7 };
    let sb: u8 = if same_sig { 2 } else { 8 };
    let seq = if same_seq { seq0 } else { other_seq };
    let sig_valid: bool = kani::any();
    let target_ok: bool = kani::any();
    unsafe {
        mh::CONTRACT_SIG_VALID.v = sig_valid;
        mh::CONTRACT_TARGET_OK.v = target_ok;
    }
    let msg = envelope(TID, false, ResponseSpecific::GetMutable(crate::common::GetMutableResponseArguments {
        responder_id: Id::from([9u8; 20]),
        token: Box::new([1, 2, 3, 4]),
        nodes: None,
        v: Box::new([val]),
        k: [kb; 32],
        seq,
        sig: [sb; 64],
    }));
    let out = core.handle_response(from, msg);
    let calls = unsafe { mh::CONTRACT_CALLS.v };
    let recorded = core.iterative_queries.get(&target).map(|q| q.responses().len()).unwrap_or(99);
    let accept = sig_valid && target_ok;
    match &out {
        Some((t, Response::Mutable(item))) => {
            assert!(calls == 1 && accept, "C02.O4 a mutable item surfaces only after from_dht_message verified this very response");
            assert!(*t == target && item.seq() == seq && item.value() == &[val], "C02.O4 surfaced item is the response's item for the lookup's target");
            assert!(item.key()[0] == kb && item.key()[31] == kb && item.signature()[0] == sb && item.signature()[63] == sb, "C02.O4 surfaced item is the response's item for the lookup's target");
        }
        Some(_) => assert!(false, "C02.O4 a get_mutable response yields a mutable item"),
        None => assert!(!accept, "C02.O4 an authentic item for an in-flight lookup is delivered"),
    }
    assert!(recorded == 1 + accept as usize, "C02.O4 only verified items are recorded in the lookup");
    assert!(!cut_reached(), "CUT: another kind's validator reached");
    kani::cover!(accept && same_k && same_sig && same_seq && val != val0);
    kani::cover!(!accept && same_k && same_sig && same_seq && val != val0);
    kani::cover!(accept && !same_k);
    std::mem::forget(out);
    std::mem::forget(core);
}

//@ ob: C07.O5
//@ tier: thorough
//@ cap: 3000
//@ mem: 28
//@ standins: tracing lru vcoll
//@ also: C08
//@ desc: every expected reply's referral is merged into the lookup: for a reply (matching an in-flight request of a get_peers lookup) that is a get_peers reply with values, a no-values reply or a find_node reply, each carrying one closer node, the lookup's candidate list afterwards contains that node -- also when the reply carried values and was surfaced -- and a reply with a token makes the responder a storage candidate carrying that token; a reply whose tid belongs to no lookup merges nothing
//@ bounds: one lookup with one tracked tid; reply kind symbolic among the three; one referral node (concrete id, private IP); tid matching or not (symbolic); unwind 26
//@ stubs: RoutingTable::add -> probe; other kinds' validators -> flagged cuts; Instant::now; getrandom::fill
//@ functions: Core::handle_response (bookkeeping before the payload match), Message::{get_closer_nodes,get_token}, IterativeQuery::{add_candidate,add_responding_node}
#[kani::proof]
#[kani::stub(crate::common::immutable::validate_immutable, vi_cut)]
#[kani::stub(crate::common::mutable::MutableItem::from_dht_message, mh::from_dht_message_cut)]
#[kani::stub(crate::common::signed_announce::SignedAnnounce::from_dht_response, sh::from_dht_cut)]
#[kani::stub(crate::common::routing_table::RoutingTable::add, rt_add_probe)]
#[kani::stub(std::time::Instant::now, clock::now)]
#[kani::stub(getrandom::fill, rnd::fill)]
#[kani::unwind(26)]
fn c07_o5_referrals_merged() {
    clock::set(0);
    let mut core = new_core(false, Vec::with_capacity(1));
    let target = Id::from([5u8; 20]);
    lookup(&mut core, target, GetRequestSpecific::GetPeers(GetPeersRequestArguments { info_hash: target }));
    let from = SocketAddrV4::new([10, 0, 0, 9].into(), 6881);
    let mut rid = [0u8; 20];
    rid[0] = 0x44;
    let referral = Node::new(Id::from(rid), SocketAddrV4::new([10, 0, 0, 77].into(), 7777));
    let kind: u8 = kani::any();
    kani::assume(kind < 3);
    let tid_ok: bool = kani::any();
    let nodes: Box<[Node]> = Box::new([referral.clone()]);
    let responder_id = Id::from([9u8; 20]);
    let rs = match kind {
        0 => ResponseSpecific::GetPeers(crate::common::GetPeersResponseArguments { responder_id, token: Box::new([1, 2, 3, 4]), nodes: Some(nodes), values: vec![SocketAddrV4::new([10, 0, 0, 50].into(), 5000)] }),
        1 => ResponseSpecific::NoValues(crate::common::NoValuesResponseArguments { responder_id, token: Box::new([1, 2, 3, 4]), nodes: Some(nodes) }),
        _ => ResponseSpecific::FindNode(crate::common::FindNodeResponseArguments { responder_id, nodes }),
    };
    let out = core.handle_response(from, envelope(if tid_ok { TID } else { TID + 1 }, false, rs));
    let q = core.iterative_queries.get(&target).unwrap();
    let merged = q.closest().nodes().iter().any(|n| n.id() == referral.id());
    let responders = q.kani_responders_len();
    if tid_ok {
        assert!(merged, "C07.O5 the closer nodes of every expected reply are merged into the lookup's candidates");
        assert!(responders == (kind < 2) as usize, "C08.O3 a responder that sent a token becomes a storage candidate");
        assert!(out.is_some() == (kind == 0), "C02.O4 only a reply with values surfaces a response");
    } else {
        assert!(!merged && responders == 0 && out.is_none(), "C09 a reply that matches no in-flight request has no effect on the lookup");
    }
    assert!(!cut_reached(), "CUT: another kind's validator reached");
    kani::cover!(tid_ok && kind == 0);
    kani::cover!(tid_ok && kind == 2);
    kani::cover!(!tid_ok);
    std::mem::forget(out);
    std::mem::forget(core);
}

static mut ERR_CALLS: crate::verif_env::Ghost<usize> = crate::verif_env::ghost(81, 0);
static mut ERR_TARGET0: crate::verif_env::Ghost<u8> = crate::verif_env::ghost(82, 0);
static mut ERR_CODE: crate::verif_env::Ghost<i32> = crate::verif_env::ghost(83, 0);
/// `PutQuery::error` as a probe: which put was told about which code (the tally itself is the leaf
/// obligations C08.O1a-f; inside a heap-allocated PutQuery its Vec growth has a symbolic capacity,
/// which CBMC cannot afford)
fn put_error_probe(q: &mut crate::core::PutQuery, e: ErrorSpecific) {
    unsafe {
        ERR_CALLS.v += 1;
        ERR_TARGET0.v = q.target.as_bytes()[0];
        ERR_CODE.v = e.code;
    }
    std::mem::forget(e);
}

fn put_reply_scenario(is_err: bool) {
    use crate::common::{AnnouncePeerRequestArguments, PutImmutableRequestArguments, PutRequestSpecific};
    use crate::core::PutQuery;
    clock::set(0);
    let mut core = new_core(false, Vec::with_capacity(1));
    let ta = Id::from([5u8; 20]);
    let tb = Id::from([6u8; 20]);
    let mut qa = PutQuery::new(PutRequestSpecific::AnnouncePeer(AnnouncePeerRequestArguments { info_hash: ta, port: 1, implied_port: None }), None);
    qa.kani_track(7);
    let mut qb = PutQuery::new(PutRequestSpecific::PutImmutable(PutImmutableRequestArguments { target: tb, v: Box::new([7]) }), None);
    qb.kani_track(9);
    core.put_queries.insert(ta, qa);
    core.put_queries.insert(tb, qb);
    let which: u8 = kani::any();
    kani::assume(which < 3);
    let tid = if which == 0 { 7u32 } else if which == 1 { 9 } else { 11 };
    let ro: bool = kani::any();
    let code: i32 = kani::any();
    let from = SocketAddrV4::new([10, 0, 0, 9].into(), 6881);
    // the message kind is fixed per instance (a symbolic enum discriminant makes every move of the
    // message a byte-level case split)
    let mt = if is_err {
        MessageType::Error(ErrorSpecific { code, description: String::new() })
    } else {
        MessageType::Response(ResponseSpecific::Ping(PingResponseArguments { responder_id: Id::from([9u8; 20]) }))
    };
    let msg = Message { transaction_id: tid, version: None, requester_ip: None, read_only: ro, message_type: mt };
    let out = core.handle_response(from, msg);
    assert!(out.is_none(), "C08.O5 a reply to a put surfaces no lookup response");
    let a = core.put_queries.get(&ta).unwrap();
    let b = core.put_queries.get(&tb).unwrap();
    let (a_acks, a_errs) = (a.kani_acks(), a.kani_errors());
    let (b_acks, b_errs) = (b.kani_acks(), b.kani_errors());
    let credit_a = which == 0 && !ro;
    let credit_b = which == 1 && !ro;
    assert!(a_acks == (credit_a && !is_err) as usize, "C08.O5/C18.O4 an ack is credited exactly to the owning put, never from a read-only reply");
    assert!(b_acks == (credit_b && !is_err) as usize, "C08.O5/C18.O4 an ack is credited exactly to the owning put, never from a read-only reply");
    // errors: PutQuery::error is a probe here (who was told what)
    let (calls, t0, c) = unsafe { (ERR_CALLS.v, ERR_TARGET0.v, ERR_CODE.v) };
    if is_err && (credit_a || credit_b) {
        assert!(calls == 1 && c == code && t0 == (if credit_a { 5 } else { 6 }), "C08.O5 an error is handed once, with its code, to the owning put");
    } else {
        assert!(calls == 0, "C08.O5/C18.O4 an error is tallied only for the owning put, never from a read-only reply");
    }
    assert!(a_errs.0 == 0 && b_errs.0 == 0, "C08.O5 (tallies untouched: PutQuery::error is a probe)");
    if ro || which == 2 {
        assert!(unsafe { RT_ADDS.v } == 0, "C09/C18.O4 replies that are read-only or match no in-flight request teach nothing");
    }
    assert!(!cut_reached(), "CUT: a lookup validator reached for a put reply");
    kani::cover!(credit_a);
    kani::cover!(credit_b && (!is_err || code == 301));
    kani::cover!(ro && which == 0);
    kani::cover!(which == 2);
    std::mem::forget(out);
    std::mem::forget(core);
}

//@ ob: C08.O5a
//@ tier: thorough
//@ cap: 2400
//@ mem: 24
//@ unwindset_raw: memcmp.0:22
//@ standins: tracing lru vcoll
//@ also: C18 C09
//@ desc: acknowledgements are credited only to the put that owns the transaction id, and never when the reply is flagged read-only: with two puts in flight (different targets, one request each) and a ping-shaped ack (tid of put A, of put B or of neither; read-only flag symbolic), exactly the owning put's acknowledgement counter moves, and only if the reply is not read-only; the other put is untouched; nothing is surfaced; a read-only or foreign reply teaches the routing table nothing
//@ bounds: two PutQuery objects (announce_peer for T5, put_immutable for T6) with one tracked tid each; one reply; symbolic tid choice / read-only bit; no lookups active; unwind 4 (containers hold at most 2 entries), memcmp 22 (id compare)
//@ stubs: RoutingTable::add -> probe counting calls; PutQuery::error -> probe recording (put, code) (the tally is C08.O1a-f); lookup validators -> flagged cuts; Instant::now; getrandom::fill
//@ functions: Core::handle_response (read-only guard, put dispatch), PutQuery::{inflight,success}
#[kani::proof]
#[kani::stub(crate::common::immutable::validate_immutable, vi_cut)]
#[kani::stub(crate::common::mutable::MutableItem::from_dht_message, mh::from_dht_message_cut)]
#[kani::stub(crate::common::signed_announce::SignedAnnounce::from_dht_response, sh::from_dht_cut)]
#[kani::stub(crate::common::routing_table::RoutingTable::add, rt_add_probe)]
#[kani::stub(std::time::Instant::now, clock::now)]
#[kani::stub(getrandom::fill, rnd::fill)]
#[kani::stub(crate::core::put_query::PutQuery::error, put_error_probe)]
#[kani::unwind(4)]
fn c08_o5a_put_acks_credited_to_owner() {
    put_reply_scenario(false);
}

//@ ob: C08.O5b
//@ tier: thorough
//@ cap: 2400
//@ mem: 24
//@ unwindset_raw: memcmp.0:22
//@ standins: tracing lru vcoll
//@ also: C18 C09 C17
//@ desc: error replies (any i32 code, 301/302 included) are tallied only for the put that owns the transaction id, once, with their code, and never when the reply is flagged read-only; the other put is untouched; nothing is surfaced
//@ bounds: as C08.O5a with an error reply carrying a symbolic i32 code
//@ stubs: as C08.O5a
//@ functions: Core::handle_response (read-only guard, put dispatch), PutQuery::inflight
#[kani::proof]
#[kani::stub(crate::common::immutable::validate_immutable, vi_cut)]
#[kani::stub(crate::common::mutable::MutableItem::from_dht_message, mh::from_dht_message_cut)]
#[kani::stub(crate::common::signed_announce::SignedAnnounce::from_dht_response, sh::from_dht_cut)]
#[kani::stub(crate::common::routing_table::RoutingTable::add, rt_add_probe)]
#[kani::stub(std::time::Instant::now, clock::now)]
#[kani::stub(getrandom::fill, rnd::fill)]
#[kani::stub(crate::core::put_query::PutQuery::error, put_error_probe)]
#[kani::unwind(4)]
fn c08_o5b_put_errors_credited_to_owner() {
    put_reply_scenario(true);
}

//! Observation helper for C03/C20 harnesses (see harness/peers.rs).
//! Private names used: `SignedPeersStore { info_hashes }`.
use super::*;
#[allow(unused_imports)]
use crate::verif_env::k as kani;

impl SignedPeersStore {
    /// (number of announcements stored for `info_hash`, the most recent one)
    pub(crate) fn kani_peers(&self, info_hash: &Id) -> Option<(usize, Option<SignedAnnounce>)> {
        self.info_hashes.peek(info_hash).map(|l| (l.len(), l.iter().next().map(|e| e.1.clone())))
    }
    pub(crate) fn kani_info_hashes(&self) -> usize {
        self.info_hashes.len()
    }
}

//! C02.O1 / C03 leaf contract — `MutableItem::from_dht_message`.
//! Private names used: `MutableItem { target, key, seq, value, signature, salt }`,
//! `encode_signable`.  Stubs: the Ed25519 `verify` call is an oracle (harness/env.rs).
use super::*;
#[allow(unused_imports)]
use crate::verif_env::k as kani;
use crate::verif_env::oracle;

/// independent reference for BEP44's signable buffer; `seq_dec` is the decimal text of seq
fn ref_signable(salt: Option<&[u8]>, seq_dec: &[u8], v: &[u8]) -> Vec<u8> {
    let mut out = Vec::new();
    if let Some(s) = salt {
        out.extend_from_slice(b"4:salt");
        out.push(b'0' + s.len() as u8); // salts here are < 10 bytes
        out.push(b':');
        out.extend_from_slice(s);
    }
    out.extend_from_slice(b"3:seqi");
    out.extend_from_slice(seq_dec);
    out.extend_from_slice(b"e1:v");
    out.push(b'0' + v.len() as u8); // values here are < 10 bytes
    out.push(b':');
    out.extend_from_slice(v);
    out
}

/// `MutableItem::target_from_key` as an uninterpreted function of (k, salt) (ghost table through
/// `uf::h`; keys are told apart by their first and last byte, salts here are at most one byte).
/// That the real function is SHA-1 over k || salt is C02.O1t.
pub(crate) fn target_uf(k: &[u8; 32], salt: Option<&[u8]>) -> Id {
    let (has, s0) = match salt {
        Some(s) => {
            if s.len() > 1 {
                crate::verif_env::cut();
            }
            (1u8, if s.is_empty() { 0 } else { s[0] })
        }
        None => (0u8, 0u8),
    };
    Id::from(crate::verif_env::uf::h(&[k[0], k[31], has, s0]))
}

fn scenario(seq: i64, seq_dec: &[u8], with_salt: bool) {
    crate::verif_env::uf::arm(kani::env());
    let verdict: bool = kani::any();
    oracle::arm(0, verdict);
    let key = oracle::K1;
    let target_b: [u8; 20] = kani::env();
    let target = Id::from(target_b);
    let vb: u8 = kani::any();
    let sb: u8 = kani::any();
    let salt_arr = [sb];
    let salt: Option<&[u8]> = if with_salt { Some(&salt_arr) } else { None };
    let msg = ref_signable(salt, seq_dec, &[vb]);
    let sym_sig: [u8; 64] = kani::env();
    let sig = oracle::signature(0, 1, &msg, sym_sig);
    let expected_target = MutableItem::target_from_key(&key, salt);
    let r = MutableItem::from_dht_message(target, &key, Box::new([vb]), seq, &sig, salt.map(|s| s.into()));
    match &r {
        Ok(item) => {
            #[cfg(not(verif_replay))]
            {
                assert!(oracle::asked() == 1 && verdict, "C02.O1 accepted item passed signature verification");
                assert!(oracle::was_about(0, &key, &msg, &sig), "C02.O1 verified exactly (k, signable(salt, seq, v), sig)");
            }
            assert!(target == expected_target, "C02.O1 accepted item's target is target_from_key(k, salt) = SHA1(k || salt)");
            assert!(*item.key() == key && item.seq() == seq && item.value() == &[vb], "C02.O1 item carries k, seq, v");
            assert!(item.salt() == salt && *item.signature() == sig && *item.target() == target, "C02.O1 item carries salt, sig, target");
        }
        Err(_) => {
            assert!(!verdict || target != expected_target, "C02.O1 an authentic item for this target is accepted");
        }
    }
    kani::cover!(r.is_ok());
    kani::cover!(r.is_err() && verdict);
    kani::cover!(r.is_err() && !verdict);
    assert!(!crate::verif_env::cut_reached(), "CUT: oracle capacity");
    std::mem::forget(r);
    std::mem::forget(msg);
}

//@ ob: C02.O1a
//@ tier: off
//@ cap: 3000
//@ also: C03
//@ desc: MutableItem::from_dht_message(target, k, v, seq, sig, salt) = Ok(item) iff the signature oracle said valid for exactly (k, bencode-signable(salt, seq, v), sig) AND target = SHA1(k || salt) (the target function abstracted; bound to SHA-1 over k || salt by C02.O1t); the item carries k, seq, v, salt, sig -- instance seq = 1, no salt
//@ bounds: k = a concrete valid Ed25519 key; target 20 symbolic bytes; sig 64 symbolic bytes; v 1 symbolic byte; symbolic verdict; seq = 1 (format! of a symbolic i64 does not finish); unwind 66 (signature compare)
//@ stubs: <VerifyingKey as Verifier<Signature>>::verify -> oracle with pre-drawn verdict, query recorded; VerifyingKey::from_bytes -> wraps the 32 bytes without point decompression (real decompression: C02.O1f and native replay); MutableItem::target_from_key -> uninterpreted function of (k, salt) (that it is SHA-1 over k || salt: C02.O1t)
//@ functions: MutableItem::from_dht_message, mutable::encode_signable, MutableItem::target_from_key, VerifyingKey::try_from (real), Signature::from_slice, sha1_smol (real)
#[kani::proof]
#[kani::stub(<ed25519_dalek::VerifyingKey as ed25519_dalek::Verifier<ed25519_dalek::Signature>>::verify, oracle::verify_stub)]
#[kani::stub(MutableItem::target_from_key, target_uf)]
#[kani::stub(ed25519_dalek::VerifyingKey::from_bytes, oracle::from_bytes_wrap)]
#[kani::unwind(66)]
fn c02_o1a_from_dht_message_seq1_nosalt() {
    scenario(1, b"1", false);
}

//@ ob: C02.O1b
//@ tier: off
//@ cap: 3000
//@ also: C03
//@ desc: same as C02.O1a with seq = -1 and a 1-byte symbolic salt: an item for another salt (target of a different salt) is rejected
//@ bounds: as C02.O1a; salt 1 symbolic byte; seq = -1
//@ stubs: <VerifyingKey as Verifier<Signature>>::verify -> oracle; VerifyingKey::from_bytes -> wrap without decompression; MutableItem::target_from_key -> uninterpreted function of (k, salt) (that it is SHA-1 over k || salt: C02.O1t)
//@ functions: MutableItem::from_dht_message, mutable::encode_signable, MutableItem::target_from_key
#[kani::proof]
#[kani::stub(<ed25519_dalek::VerifyingKey as ed25519_dalek::Verifier<ed25519_dalek::Signature>>::verify, oracle::verify_stub)]
#[kani::stub(MutableItem::target_from_key, target_uf)]
#[kani::stub(ed25519_dalek::VerifyingKey::from_bytes, oracle::from_bytes_wrap)]
#[kani::unwind(66)]
fn c02_o1b_from_dht_message_neg_salt() {
    scenario(-1, b"-1", true);
}

//@ ob: C02.O1c
//@ tier: off
//@ cap: 3000
//@ also: C03
//@ desc: same with seq = i64::MIN (longest decimal text), no salt
//@ bounds: as C02.O1a; seq = i64::MIN
//@ stubs: <VerifyingKey as Verifier<Signature>>::verify -> oracle; VerifyingKey::from_bytes -> wrap without decompression; MutableItem::target_from_key -> uninterpreted function of (k, salt) (that it is SHA-1 over k || salt: C02.O1t)
//@ functions: MutableItem::from_dht_message, mutable::encode_signable
#[kani::proof]
#[kani::stub(<ed25519_dalek::VerifyingKey as ed25519_dalek::Verifier<ed25519_dalek::Signature>>::verify, oracle::verify_stub)]
#[kani::stub(MutableItem::target_from_key, target_uf)]
#[kani::stub(ed25519_dalek::VerifyingKey::from_bytes, oracle::from_bytes_wrap)]
#[kani::unwind(66)]
fn c02_o1c_from_dht_message_min() {
    scenario(i64::MIN, b"-9223372036854775808", false);
}

//@ ob: C02.O1d
//@ tier: off
//@ cap: 3000
//@ also: C03
//@ desc: same with seq = i64::MAX and a salt
//@ bounds: as C02.O1a; seq = i64::MAX; salt 1 symbolic byte
//@ stubs: <VerifyingKey as Verifier<Signature>>::verify -> oracle; VerifyingKey::from_bytes -> wrap without decompression; MutableItem::target_from_key -> uninterpreted function of (k, salt) (that it is SHA-1 over k || salt: C02.O1t)
//@ functions: MutableItem::from_dht_message, mutable::encode_signable
#[kani::proof]
#[kani::stub(<ed25519_dalek::VerifyingKey as ed25519_dalek::Verifier<ed25519_dalek::Signature>>::verify, oracle::verify_stub)]
#[kani::stub(MutableItem::target_from_key, target_uf)]
#[kani::stub(ed25519_dalek::VerifyingKey::from_bytes, oracle::from_bytes_wrap)]
#[kani::unwind(66)]
fn c02_o1d_from_dht_message_max_salt() {
    scenario(i64::MAX, b"9223372036854775807", true);
}

//@ ob: C02.O1e
//@ tier: quick
//@ cap: 800
//@ also: C03 C05
//@ desc: malformed key lengths are rejected without panic and without any verification: key slice length in {0, 31, 33}
//@ bounds: key lengths 0, 31, 33 (one concrete call each), symbolic 1-byte value, well-formed 64-byte signature; unwind 34
//@ stubs: <VerifyingKey as Verifier<Signature>>::verify -> oracle (never reached); VerifyingKey::from_bytes (point decompression) -> flagged cut: a key of the wrong length must be refused before it
//@ functions: MutableItem::from_dht_message, VerifyingKey::try_from (length check)
#[kani::proof]
#[kani::stub(<ed25519_dalek::VerifyingKey as ed25519_dalek::Verifier<ed25519_dalek::Signature>>::verify, oracle::verify_stub)]
#[kani::stub(ed25519_dalek::VerifyingKey::from_bytes, oracle::from_bytes_cut)]
#[kani::unwind(34)]
fn c02_o1e_from_dht_message_key_lengths() {
    oracle::arm(0, true);
    let kbuf = [1u8; 33];
    let sbuf = [2u8; 64];
    let vb: u8 = kani::any();
    let r0 = MutableItem::from_dht_message(Id::from([0u8; 20]), &kbuf[..0], Box::new([vb]), 1, &sbuf, None);
    let r1 = MutableItem::from_dht_message(Id::from([0u8; 20]), &kbuf[..31], Box::new([vb]), 1, &sbuf, None);
    let r2 = MutableItem::from_dht_message(Id::from([0u8; 20]), &kbuf[..33], Box::new([vb]), 1, &sbuf, None);
    assert!(r0.is_err() && r1.is_err() && r2.is_err(), "C02.O1e malformed key or signature length rejected");
    assert!(oracle::asked() == 0, "C02.O1e nothing verified for malformed lengths");
    kani::cover!(vb == 0);
    kani::cover!(vb != 0);
    assert!(!crate::verif_env::cut_reached(), "CUT: point decompression reached for a key of the wrong length");
    std::mem::forget(r0);
    std::mem::forget(r1);
    std::mem::forget(r2);
}

//@ ob: C02.O1f
//@ tier: quick
//@ cap: 800
//@ rss: 2.0
//@ time: 81
//@ also: C03 C05
//@ desc: malformed signature lengths are rejected without panic and without any verification: signature length in {0, 63, 65}, with a well-formed key
//@ bounds: signature lengths 0, 63, 65 (one concrete call each), concrete valid key, symbolic 1-byte value; unwind 130 (concrete point decompression)
//@ stubs: <VerifyingKey as Verifier<Signature>>::verify -> oracle (never reached)
//@ functions: MutableItem::from_dht_message, Signature::from_slice
#[kani::proof]
#[kani::stub(<ed25519_dalek::VerifyingKey as ed25519_dalek::Verifier<ed25519_dalek::Signature>>::verify, oracle::verify_stub)]
#[kani::unwind(130)]
fn c02_o1f_from_dht_message_sig_lengths() {
    oracle::arm(0, true);
    let sbuf = [2u8; 65];
    let vb: u8 = kani::any();
    let r0 = MutableItem::from_dht_message(Id::from([0u8; 20]), &oracle::K1, Box::new([vb]), 1, &sbuf[..0], None);
    let r1 = MutableItem::from_dht_message(Id::from([0u8; 20]), &oracle::K1, Box::new([vb]), 1, &sbuf[..63], None);
    let r2 = MutableItem::from_dht_message(Id::from([0u8; 20]), &oracle::K1, Box::new([vb]), 1, &sbuf[..65], None);
    assert!(r0.is_err() && r1.is_err() && r2.is_err(), "C02.O1e malformed key or signature length rejected");
    assert!(oracle::asked() == 0, "C02.O1e nothing verified for malformed lengths");
    kani::cover!(vb == 0);
    kani::cover!(vb != 0);
    std::mem::forget(r0);
    std::mem::forget(r1);
    std::mem::forget(r2);
}

// ---- C02.O1u: from_dht_message with the signable encoding as a recorded function ----
static mut SG_CALLS: crate::verif_env::Ghost<usize> = crate::verif_env::ghost(84, 0);
static mut SG_SEQ: crate::verif_env::Ghost<i64> = crate::verif_env::ghost(85, 0);
static mut SG_V: crate::verif_env::Ghost<(usize, u8)> = crate::verif_env::ghost(86, (0, 0));
static mut SG_SALT: crate::verif_env::Ghost<(bool, usize, u8)> = crate::verif_env::ghost(87, (false, 0, 0));
const SG_TAG: [u8; 3] = [0xAA, 0xBB, 0xCC];
/// `encode_signable` as a recorded function: notes (seq, v, salt) and returns a tag buffer; that the
/// real function is the BEP44 encoding of exactly these three inputs is C02.O1s
fn encode_signable_probe(seq: i64, value: &[u8], salt: Option<&[u8]>) -> Box<[u8]> {
    unsafe {
        SG_CALLS.v += 1;
        SG_SEQ.v = seq;
        SG_V.v = (value.len(), if value.is_empty() { 0 } else { value[0] });
        SG_SALT.v = match salt {
            Some(s) => (true, s.len(), if s.is_empty() { 0 } else { s[0] }),
            None => (false, 0, 0),
        };
    }
    Box::new(SG_TAG)
}

//@ ob: C02.O1u
//@ tier: quick
//@ cap: 800
//@ rss: 2.0
//@ time: 78
//@ also: C03
//@ desc: MutableItem::from_dht_message(target, k, v, seq, sig, salt) for EVERY i64 seq: Ok(item) iff the signature oracle said valid for exactly (k, encode_signable(seq, v, salt), sig) -- the signable buffer computed once, from the request's own seq, value and salt -- AND target = target_from_key(k, salt); the item carries target, k, seq, v, salt, sig; an item for another salt, another key's target, or with a corrupted signature is refused
//@ bounds: k = a concrete valid Ed25519 key; target 20 symbolic bytes; sig 64 symbolic bytes; v 1 symbolic byte; salt absent or 1 symbolic byte; seq full symbolic i64; symbolic verdict; unwind 66
//@ stubs: <VerifyingKey as Verifier<Signature>>::verify -> oracle with pre-drawn verdict, query recorded; VerifyingKey::from_bytes -> wrap without point decompression (real: C02.O1f, native replay); mutable::encode_signable -> recorded function of (seq, v, salt) (that it is the BEP44 encoding: C02.O1s); MutableItem::target_from_key -> uninterpreted function of (k, salt) (that it is SHA-1 over k || salt: C02.O1t)
//@ functions: MutableItem::from_dht_message
#[kani::proof]
#[kani::stub(<ed25519_dalek::VerifyingKey as ed25519_dalek::Verifier<ed25519_dalek::Signature>>::verify, oracle::verify_stub)]
#[kani::stub(MutableItem::target_from_key, target_uf)]
#[kani::stub(ed25519_dalek::VerifyingKey::from_bytes, oracle::from_bytes_wrap)]
#[kani::stub(encode_signable, encode_signable_probe)]
#[kani::unwind(66)]
fn c02_o1u_from_dht_message_any_seq() {
    crate::verif_env::uf::arm(kani::env());
    let verdict: bool = kani::any();
    oracle::arm(0, verdict);
    let key = oracle::K1;
    let target_b: [u8; 20] = kani::env();
    let target = Id::from(target_b);
    let seq: i64 = kani::any();
    let vb: u8 = kani::any();
    let sb: u8 = kani::any();
    let with_salt: bool = kani::any();
    let salt_arr = [sb];
    let salt: Option<&[u8]> = if with_salt { Some(&salt_arr) } else { None };
    // the message the oracle must be asked about: under Kani the tag the recorded function returns,
    // in native replay the real BEP44 buffer (real Ed25519 signs / verifies it)
    #[cfg(not(verif_replay))]
    let msg: Vec<u8> = SG_TAG.to_vec();
    #[cfg(verif_replay)]
    let msg: Vec<u8> = ref_signable(salt, seq.to_string().as_bytes(), &[vb]);
    let sym_sig: [u8; 64] = kani::env();
    let sig = oracle::signature(0, 1, &msg, sym_sig);
    let expected_target = MutableItem::target_from_key(&key, salt);
    let r = MutableItem::from_dht_message(target, &key, Box::new([vb]), seq, &sig, salt.map(|s| s.into()));
    match &r {
        Ok(item) => {
            #[cfg(not(verif_replay))]
            {
                assert!(oracle::asked() == 1 && verdict, "C02.O1 accepted item passed signature verification");
                assert!(oracle::was_about(0, &key, &msg, &sig), "C02.O1 verified exactly (k, signable(salt, seq, v), sig)");
                let (calls, s, v, sl) = unsafe { (SG_CALLS.v, SG_SEQ.v, SG_V.v, SG_SALT.v) };
                assert!(calls == 1 && s == seq && v == (1, vb), "C02.O1 the verified buffer encodes the item's own seq and value");
                assert!(sl == (with_salt, with_salt as usize, if with_salt { sb } else { 0 }), "C02.O1 the verified buffer encodes the requested salt");
            }
            assert!(target == expected_target, "C02.O1 accepted item's target is target_from_key(k, salt) = SHA1(k || salt)");
            assert!(*item.key() == key && item.seq() == seq && item.value() == &[vb], "C02.O1 item carries k, seq, v");
            assert!(item.salt() == salt && *item.signature() == sig && *item.target() == target, "C02.O1 item carries salt, sig, target");
        }
        Err(_) => {
            assert!(!verdict || target != expected_target, "C02.O1 an authentic item for this target is accepted");
        }
    }
    kani::cover!(r.is_ok() && seq < 0 && with_salt);
    kani::cover!(r.is_ok() && seq == i64::MAX);
    kani::cover!(r.is_err() && verdict);
    kani::cover!(r.is_err() && !verdict);
    assert!(!crate::verif_env::cut_reached(), "CUT: oracle capacity");
    std::mem::forget(r);
    std::mem::forget(msg);
}

//@ ob: C02.O1s
//@ tier: quick
//@ cap: 800
//@ rss: 0.5
//@ time: 10
//@ also: C03
//@ desc: structure of mutable::encode_signable(seq, v, salt) for every i64 seq and every byte value: with a salt the buffer is <formatted piece 1> salt-bytes <formatted piece 2> value-bytes, without a salt <formatted piece 1> value-bytes -- the salt and the value are embedded verbatim (bytes that are not valid UTF-8 included; nothing is re-encoded, truncated or dropped), in that order, and nothing else is added.  The text of the formatted pieces ("4:salt<len>:", "3:seqi<seq>e1:v<len>:") is pinned for fixed inputs by the repo's own tests signable_with_salt / signable_without_salt and is outside this obligation
//@ bounds: seq full symbolic i64; 1 symbolic value byte; salt absent or 1 symbolic byte; unwind 8
//@ stubs: alloc::fmt::format -> numbered tag (core::fmt::write does not finish symbolic execution, with or without the decimal stub: 1500 s cap)
//@ functions: mutable::encode_signable (buffer assembly)
#[kani::proof]
#[kani::stub(alloc::fmt::format, crate::verif_env::fmt_tag::format)]
#[kani::unwind(8)]
fn c02_o1s_signable_structure() {
    let seq: i64 = kani::any();
    let vb: u8 = kani::any();
    let sb: u8 = kani::any();
    // native replay (no stubs there: the real formatter runs): the buffer is compared with the
    // reference encoding; bytes outside ASCII are the distinguishing inputs, and any native failure
    // is a genuine witness whatever the inputs are
    #[cfg(verif_replay)]
    let (vb, sb) = (vb | 0x80, sb | 0x80);
    let a = encode_signable(seq, &[vb], None);
    let salt = [sb];
    #[cfg(verif_replay)]
    {
        let dec = seq.to_string();
        assert!(&*a == &ref_signable(None, dec.as_bytes(), &[vb])[..], "C02.O1s signable buffer embeds the value verbatim after its header");
        let b = encode_signable(seq, &[vb], Some(&salt));
        assert!(&*b == &ref_signable(Some(&salt), dec.as_bytes(), &[vb])[..], "C02.O1s signable buffer embeds salt then value verbatim (any byte values)");
    }
    #[cfg(not(verif_replay))]
    {
        assert!(crate::verif_env::fmt_tag::calls() == 1, "C02.O1s one formatted piece without a salt");
        assert!(a.len() == 3 && a[0] == b'#' && a[1] == b'1' && a[2] == vb, "C02.O1s signable buffer embeds the value verbatim after its header");
        crate::verif_env::fmt_tag::reset();
        let b = encode_signable(seq, &[vb], Some(&salt));
        assert!(crate::verif_env::fmt_tag::calls() == 2, "C02.O1s two formatted pieces with a salt");
        assert!(b.len() == 6 && b[0] == b'#' && b[1] == b'1' && b[2] == sb && b[3] == b'#' && b[4] == b'2' && b[5] == vb, "C02.O1s signable buffer embeds salt then value verbatim (any byte values)");
        std::mem::forget(b);
    }
    kani::cover!(sb >= 0x80);
    kani::cover!(vb >= 0x80 && seq < 0);
    std::mem::forget(a);
}

impl MutableItem {
    /// Direct construction for composite harnesses (no SHA-1): what `from_dht_message` returns
    /// on success, field for field.
    pub(crate) fn kani_build(target: Id, key: [u8; 32], signature: [u8; 64], value: Box<[u8]>, seq: i64, salt: Option<Box<[u8]>>) -> Self {
        Self { target, key, seq, value, signature, salt }
    }
}

/// Contract of `from_dht_message` (established on the real function by C02.O1a-e): Ok iff key
/// and signature have the right lengths, the signature verifies (pre-drawn oracle verdict) and
/// target = SHA1(k || salt) (pre-drawn bit); the item carries the inputs.
pub(crate) static mut CONTRACT_SIG_VALID: crate::verif_env::Ghost<bool> = crate::verif_env::ghost(33, false);
pub(crate) static mut CONTRACT_TARGET_OK: crate::verif_env::Ghost<bool> = crate::verif_env::ghost(34, false);
pub(crate) static mut CONTRACT_CALLS: crate::verif_env::Ghost<usize> = crate::verif_env::ghost(35, 0);
pub(crate) fn from_dht_message_contract(
    target: Id,
    key: &[u8],
    v: Box<[u8]>,
    seq: i64,
    signature: &[u8],
    salt: Option<Box<[u8]>>,
) -> Result<MutableItem, MutableError> {
    unsafe { CONTRACT_CALLS.v += 1 };
    if key.len() != 32 {
        return Err(MutableError::InvalidMutablePublicKey);
    }
    if signature.len() != 64 || !unsafe { CONTRACT_SIG_VALID.v } {
        return Err(MutableError::InvalidMutableSignature);
    }
    if !unsafe { CONTRACT_TARGET_OK.v } {
        return Err(MutableError::InvalidMutablePublicKey);
    }
    let mut k = [0u8; 32];
    k.copy_from_slice(key);
    let mut s = [0u8; 64];
    s.copy_from_slice(signature);
    Ok(MutableItem::kani_build(target, k, s, v, seq, salt))
}
pub(crate) fn from_dht_message_cut(
    _target: Id,
    _key: &[u8],
    _v: Box<[u8]>,
    _seq: i64,
    _signature: &[u8],
    _salt: Option<Box<[u8]>>,
) -> Result<MutableItem, MutableError> {
    crate::verif_env::cut();
    Err(MutableError::InvalidMutableSignature)
}


// ---- C02.O1t: what target_from_key feeds into SHA-1 ----
static mut TK_IN: crate::verif_env::Ghost<[u8; 128]> = crate::verif_env::ghost(75, [0; 128]);
static mut TK_LEN: crate::verif_env::Ghost<usize> = crate::verif_env::ghost(76, 0);
fn tk_update_probe(_s: &mut sha1_smol::Sha1, data: &[u8]) {
    unsafe {
        let n = data.len();
        if TK_LEN.v + n <= 128 {
            TK_IN.v[TK_LEN.v..TK_LEN.v + n].copy_from_slice(data);
            TK_LEN.v += n;
        } else {
            crate::verif_env::cut();
        }
    }
}
fn tk_digest_probe(_s: &sha1_smol::Sha1) -> sha1_smol::Digest {
    unsafe { std::mem::transmute::<[u32; 5], sha1_smol::Digest>([7u32; 5]) }
}

//@ ob: C02.O1t
//@ tier: quick
//@ cap: 800
//@ rss: 0.5
//@ time: 19
//@ also: C03
//@ desc: MutableItem::target_from_key(k, salt) feeds exactly k followed by the salt (nothing else, nothing missing) into SHA-1 and returns that hasher's digest: for no salt, an empty salt, and salts of 1 and 64 bytes
//@ bounds: key 32 symbolic bytes; salt absent / empty / 1 symbolic byte / 64 bytes (first and last symbolic); SHA-1 itself abstracted (Sha1::update records, Sha1::digest uninterpreted); unwind 8
//@ stubs: sha1_smol::Sha1::update -> probe recording the input; sha1_smol::Sha1::digest -> fixed digest
//@ functions: MutableItem::target_from_key
#[kani::proof]
#[kani::stub(sha1_smol::Sha1::update, tk_update_probe)]
#[kani::stub(sha1_smol::Sha1::digest, tk_digest_probe)]
#[kani::unwind(8)]
fn c02_o1t_target_hash_input() {
    let k: [u8; 32] = kani::env();
    let mut salt64 = [0x55u8; 64];
    salt64[0] = kani::any();
    salt64[63] = kani::any();
    let which: u8 = kani::any();
    kani::assume(which < 4);
    let n = match which { 0 => 0usize, 1 => 0, 2 => 1, _ => 64 };
    let salt: Option<&[u8]> = if which == 0 { None } else { Some(&salt64[..n]) };
    let t = MutableItem::target_from_key(&k, salt);
    let (len, buf) = unsafe { (TK_LEN.v, &TK_IN.v) };
    assert!(len == 32 + n, "C02.O1t the target hashes exactly k || salt");
    assert!(buf[0] == k[0] && buf[15] == k[15] && buf[31] == k[31], "C02.O1t the target hashes exactly k || salt");
    if n >= 1 {
        assert!(buf[32] == salt64[0], "C02.O1t the target hashes exactly k || salt");
    }
    if n == 64 {
        assert!(buf[95] == salt64[63] && buf[64] == 0x55, "C02.O1t the target hashes exactly k || salt");
    }
    assert!(t.as_bytes()[0] == 0 && t.as_bytes()[3] == 7, "C02.O1t the target is that digest");
    assert!(!crate::verif_env::cut_reached(), "CUT: hasher fed more than 128 bytes");
    kani::cover!(which == 0);
    kani::cover!(which == 3);
}

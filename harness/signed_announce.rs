//! C02.O2 / C03.O4' — `SignedAnnounce::from_dht_response` / `from_dht_request`.
//! Private names used: `SignedAnnounce { key, timestamp, signature }`, `system_time`,
//! `MAX_TIMESTAMP_TOLERANCE`.
use super::*;
#[allow(unused_imports)]
use crate::verif_env::k as kani;
use crate::verif_env::{oracle, wall};

fn ref_signable(info_hash: &[u8; 20], t: u64) -> [u8; 28] {
    let mut out = [0u8; 28];
    let mut i = 0;
    while i < 20 {
        out[i] = info_hash[i];
        i += 1;
    }
    let mut i = 0;
    while i < 8 {
        out[20 + i] = (t >> (8 * (7 - i))) as u8;
        i += 1;
    }
    out
}

//@ ob: C02.O2
//@ tier: quick
//@ cap: 800
//@ rss: 1.5
//@ time: 43
//@ desc: SignedAnnounce::from_dht_response(info_hash, k, t, sig) = Ok iff the oracle said valid for exactly (k, info_hash || t as 8 big-endian bytes, sig); key, timestamp and signature are copied; the wall clock plays no role (any timestamp, any clock)
//@ bounds: k = a concrete valid key; info_hash 20 symbolic bytes; t full u64; now full u64; sig 64 symbolic bytes; symbolic verdict; unwind 66
//@ stubs: <VerifyingKey as Verifier<Signature>>::verify -> oracle; VerifyingKey::from_bytes -> wrap without point decompression (real decompression: C02.O2c and native replay); signed_announce::system_time -> symbolic u64 microseconds
//@ functions: SignedAnnounce::from_dht_response, SignedAnnounce::from_dht_message, signed_announce::encode_signable
#[kani::proof]
#[kani::stub(<ed25519_dalek::VerifyingKey as ed25519_dalek::Verifier<ed25519_dalek::Signature>>::verify, oracle::verify_stub)]
#[kani::stub(system_time, wall::system_time)]
#[kani::stub(ed25519_dalek::VerifyingKey::from_bytes, oracle::from_bytes_wrap)]
#[kani::unwind(66)]
fn c02_o2_signed_announce_response() {
    let verdict: bool = kani::any();
    oracle::arm(0, verdict);
    let ih: [u8; 20] = kani::env();
    let t: u64 = kani::any();
    let now: u64 = kani::any();
    wall::set(now);
    let msg = ref_signable(&ih, t);
    let sym_sig: [u8; 64] = kani::env();
    let sig = oracle::signature(0, 1, &msg, sym_sig);
    let r = SignedAnnounce::from_dht_response(&Id::from(ih), &oracle::K1, t, &sig);
    assert!(r.is_ok() == verdict, "C02.O2 signed announcement accepted iff its signature verifies");
    if let Ok(a) = &r {
        #[cfg(not(verif_replay))]
        assert!(oracle::asked() == 1 && oracle::was_about(0, &oracle::K1, &msg, &sig), "C02.O2 verified exactly (k, info_hash || t, sig)");
        assert!(*a.key() == oracle::K1 && a.timestamp() == t && *a.signature() == sig, "C02.O2 announcement carries k, t, sig");
    }
    kani::cover!(r.is_ok() && now.abs_diff(t) > 45_000_000);
    kani::cover!(r.is_err());
    assert!(!crate::verif_env::cut_reached(), "CUT: oracle capacity");
    std::mem::forget(r);
}

//@ ob: C03.O4p
//@ tier: quick
//@ cap: 800
//@ rss: 1.0
//@ time: 17
//@ also: C02
//@ desc: SignedAnnounce::from_dht_request = Ok iff the oracle said valid for (k, info_hash || t, sig) AND |now_us - t| <= 45 000 000 (both full u64, no overflow)
//@ bounds: as C02.O2
//@ stubs: <VerifyingKey as Verifier<Signature>>::verify -> oracle; VerifyingKey::from_bytes -> wrap without point decompression (real decompression: C02.O2c and native replay); signed_announce::system_time -> symbolic u64 microseconds
//@ functions: SignedAnnounce::from_dht_request, SignedAnnounce::from_dht_message
#[kani::proof]
#[kani::stub(<ed25519_dalek::VerifyingKey as ed25519_dalek::Verifier<ed25519_dalek::Signature>>::verify, oracle::verify_stub)]
#[kani::stub(system_time, wall::system_time)]
#[kani::stub(ed25519_dalek::VerifyingKey::from_bytes, oracle::from_bytes_wrap)]
#[kani::unwind(66)]
fn c03_o4p_signed_announce_request() {
    let verdict: bool = kani::any();
    oracle::arm(0, verdict);
    let ih: [u8; 20] = kani::env();
    let t: u64 = kani::any();
    let now: u64 = kani::any();
    wall::set(now);
    let msg = ref_signable(&ih, t);
    let sym_sig: [u8; 64] = kani::env();
    let sig = oracle::signature(0, 1, &msg, sym_sig);
    let r = SignedAnnounce::from_dht_request(&Id::from(ih), &oracle::K1, t, &sig);
    let diff = if now >= t { now - t } else { t - now };
    assert!(r.is_ok() == (verdict && diff <= 45_000_000), "C03.O4 signed announce stored iff signature verifies and timestamp within 45 s");
    if let Ok(a) = &r {
        assert!(*a.key() == oracle::K1 && a.timestamp() == t && *a.signature() == sig, "C03.O4 announcement carries k, t, sig");
    }
    kani::cover!(r.is_ok() && diff == 45_000_000);
    kani::cover!(r.is_err() && verdict && diff == 45_000_001);
    kani::cover!(r.is_ok() && t > now);
    assert!(!crate::verif_env::cut_reached(), "CUT: oracle capacity");
    std::mem::forget(r);
}

//@ ob: C02.O2b
//@ tier: quick
//@ cap: 800
//@ also: C03 C05
//@ desc: malformed key lengths are rejected without panic and without any verification (key length in {0, 31, 33}) on both the request and the response path
//@ bounds: key lengths 0, 31, 33 (one concrete call each), concrete contents, well-formed 64-byte signature, request/response path symbolic; unwind 34
//@ stubs: verify -> oracle (never reached); system_time -> symbolic; VerifyingKey::from_bytes (point decompression) -> flagged cut: a key of the wrong length must be refused before it
//@ functions: SignedAnnounce::from_dht_message, VerifyingKey::try_from (length check)
#[kani::proof]
#[kani::stub(<ed25519_dalek::VerifyingKey as ed25519_dalek::Verifier<ed25519_dalek::Signature>>::verify, oracle::verify_stub)]
#[kani::stub(system_time, wall::system_time)]
#[kani::stub(ed25519_dalek::VerifyingKey::from_bytes, oracle::from_bytes_cut)]
#[kani::unwind(34)]
fn c02_o2b_signed_announce_key_lengths() {
    oracle::arm(0, true);
    wall::set(0);
    let kbuf = [1u8; 33];
    let sbuf = [2u8; 64];
    let req: bool = kani::any();
    // concrete lengths, one call each: a symbolic length would make CBMC run the point
    // decompression under an infeasible guard
    let r0 = SignedAnnounce::from_dht_message(&Id::from([0u8; 20]), &kbuf[..0], 0, &sbuf, req);
    let r1 = SignedAnnounce::from_dht_message(&Id::from([0u8; 20]), &kbuf[..31], 0, &sbuf, req);
    let r2 = SignedAnnounce::from_dht_message(&Id::from([0u8; 20]), &kbuf[..33], 0, &sbuf, req);
    assert!(r0.is_err() && r1.is_err() && r2.is_err(), "C02.O2b malformed key or signature length rejected");
    assert!(oracle::asked() == 0, "C02.O2b nothing verified for malformed lengths");
    kani::cover!(req);
    kani::cover!(!req);
    assert!(!crate::verif_env::cut_reached(), "CUT: point decompression reached for a key of the wrong length");
    std::mem::forget(r0);
    std::mem::forget(r1);
    std::mem::forget(r2);
}

//@ ob: C02.O2c
//@ tier: quick
//@ cap: 800
//@ rss: 2.0
//@ time: 82
//@ also: C03 C05
//@ desc: malformed signature lengths are rejected without panic and without any verification (signature length in {0, 63, 65}) with a well-formed key, on both the request and the response path
//@ bounds: signature lengths 0, 63, 65 (one concrete call each), concrete valid key, request/response path symbolic; unwind 130 (concrete point decompression)
//@ stubs: verify -> oracle (never reached); system_time -> symbolic
//@ functions: SignedAnnounce::from_dht_message, Signature::from_slice
#[kani::proof]
#[kani::stub(<ed25519_dalek::VerifyingKey as ed25519_dalek::Verifier<ed25519_dalek::Signature>>::verify, oracle::verify_stub)]
#[kani::stub(system_time, wall::system_time)]
#[kani::unwind(130)]
fn c02_o2c_signed_announce_sig_lengths() {
    oracle::arm(0, true);
    wall::set(0);
    let sbuf = [2u8; 65];
    let req: bool = kani::any();
    let r0 = SignedAnnounce::from_dht_message(&Id::from([0u8; 20]), &oracle::K1, 0, &sbuf[..0], req);
    let r1 = SignedAnnounce::from_dht_message(&Id::from([0u8; 20]), &oracle::K1, 0, &sbuf[..63], req);
    let r2 = SignedAnnounce::from_dht_message(&Id::from([0u8; 20]), &oracle::K1, 0, &sbuf[..65], req);
    assert!(r0.is_err() && r1.is_err() && r2.is_err(), "C02.O2b malformed key or signature length rejected");
    assert!(oracle::asked() == 0, "C02.O2b nothing verified for malformed lengths");
    kani::cover!(req);
    kani::cover!(!req);
    std::mem::forget(r0);
    std::mem::forget(r1);
    std::mem::forget(r2);
}

/// Contract of `from_dht_request` / `from_dht_response` (established by C03.O4p / C02.O2 on the
/// real function): Ok iff lengths are right and the pre-drawn verdict for this call is true.
pub(crate) static mut CONTRACT_OK: crate::verif_env::Ghost<[bool; 3]> = crate::verif_env::ghost(39, [false; 3]);
pub(crate) static mut CONTRACT_CALLS: crate::verif_env::Ghost<usize> = crate::verif_env::ghost(40, 0);
pub(crate) fn from_dht_contract(_info_hash: &Id, key: &[u8], timestamp: u64, signature: &[u8]) -> Result<SignedAnnounce, SignedAnnounceError> {
    let i = unsafe { CONTRACT_CALLS.v };
    unsafe { CONTRACT_CALLS.v += 1 };
    if key.len() != 32 {
        return Err(SignedAnnounceError::PublicKey);
    }
    if signature.len() != 64 || i >= 3 || !unsafe { CONTRACT_OK.v[i] } {
        return Err(SignedAnnounceError::Signature);
    }
    let mut k = [0u8; 32];
    k.copy_from_slice(key);
    let mut s = [0u8; 64];
    s.copy_from_slice(signature);
    Ok(SignedAnnounce { key: k, timestamp, signature: s })
}
pub(crate) fn from_dht_cut(_info_hash: &Id, _key: &[u8], _timestamp: u64, _signature: &[u8]) -> Result<SignedAnnounce, SignedAnnounceError> {
    crate::verif_env::cut();
    Err(SignedAnnounceError::Signature)
}

//! C15 — write tokens: bound to the requester IP, rotate, expire.
//! Private names used: `Tokens { prev_secret, curr_secret, last_updated }`, `CASTAGNOLI`.
//! Stand-ins: `tracing` (rotate() logs).
use super::*;
#[allow(unused_imports)]
use crate::verif_env::k as kani;
use crate::verif_env::{clock, rnd};

fn any_tokens_at(t: u64) -> Tokens {
    clock::set(t);
    Tokens {
        prev_secret: kani::any(),
        curr_secret: kani::any(),
        last_updated: clock::now(),
    }
}

fn any_addr() -> SocketAddrV4 {
    SocketAddrV4::new(kani::any::<u32>().into(), kani::any())
}

//@ ob: C15.O1
//@ also: C03 C05
//@ rss: 0.9
//@ time: 357
//@ tier: quick
//@ cap: 800
//@ standins: tracing
//@ desc: validate(addr, tok) <=> tok has length 4 and equals crc32c(ip || curr_secret) or crc32c(ip || prev_secret) (big-endian), for symbolic secrets, address and token of length 0..=5; the reference digest is the crc crate's one-shot checksum over the 24-byte concatenation
//@ bounds: all 2x2^160 secrets, all addresses, token length 0..=5 with symbolic bytes; unwind 26
//@ stubs: std::time::Instant::now -> symbolic whole-second clock
//@ functions: Tokens::validate, Tokens::internal_generate_token
#[kani::proof]
#[kani::stub(std::time::Instant::now, clock::now)]
#[kani::unwind(26)]
fn c15_o1_validate_matches_reference() {
    let mut t = any_tokens_at(0);
    let a = any_addr();
    let tok: [u8; 5] = kani::env();
    let len: usize = kani::any();
    kani::assume(len <= 5);
    let mut buf = [0u8; 24];
    buf[..4].copy_from_slice(&a.ip().octets());
    buf[4..].copy_from_slice(&t.curr_secret);
    let c = CASTAGNOLI.checksum(&buf).to_be_bytes();
    buf[4..].copy_from_slice(&t.prev_secret);
    let p = CASTAGNOLI.checksum(&buf).to_be_bytes();
    let got = t.validate(a, &tok[..len]);
    let is_c = tok[0] == c[0] && tok[1] == c[1] && tok[2] == c[2] && tok[3] == c[3];
    let is_p = tok[0] == p[0] && tok[1] == p[1] && tok[2] == p[2] && tok[3] == p[3];
    let expect = len == 4 && (is_c || is_p);
    assert!(got == expect, "C15.O1 validate accepts exactly the current/previous token of this IP");
    kani::cover!(got && is_c && !is_p);
    kani::cover!(got && is_p && !is_c);
    kani::cover!(!got && len == 4);
    kani::cover!(!got && len == 5);
}

//@ ob: C15.O1b
//@ rss: 0.9
//@ time: 205
//@ tier: quick
//@ cap: 800
//@ standins: tracing
//@ desc: a token just generated for an address validates for that address (any port), and generate_token does not depend on the port
//@ bounds: all secrets and addresses; unwind 26
//@ stubs: std::time::Instant::now -> symbolic whole-second clock
//@ functions: Tokens::generate_token, Tokens::validate
#[kani::proof]
#[kani::stub(std::time::Instant::now, clock::now)]
#[kani::unwind(26)]
fn c15_o1b_generate_then_validate() {
    let mut t = any_tokens_at(0);
    let a = any_addr();
    let port2: u16 = kani::any();
    let b = SocketAddrV4::new(*a.ip(), port2);
    let ta = t.generate_token(a);
    let tb = t.generate_token(b);
    assert!(ta == tb, "C15.O1b token depends on the IP only");
    assert!(t.validate(b, &ta), "C15.O1b issued token validates for the same IP");
    kani::cover!(a.port() != port2);
}

//@ ob: C15.O2
//@ rss: 0.5
//@ time: 101
//@ tier: quick
//@ cap: 800
//@ standins: tracing
//@ desc: same-secret injectivity in the IP: for every secret, two different IPv4 addresses never get the same token (CRC32 over a 4-byte difference followed by a common suffix is injective)
//@ bounds: all 2^160 secrets x all pairs of distinct IPs; unwind 26
//@ stubs: std::time::Instant::now -> symbolic whole-second clock
//@ outside: cross-secret collisions and blind guesses are 2^-32 events by design of a 4-byte token
//@ functions: Tokens::generate_token, Tokens::internal_generate_token
#[kani::proof]
#[kani::stub(std::time::Instant::now, clock::now)]
#[kani::unwind(26)]
fn c15_o2_ip_injective() {
    let mut t = any_tokens_at(0);
    let a = any_addr();
    let b = any_addr();
    kani::assume(a.ip() != b.ip());
    let ta = t.generate_token(a);
    let tb = t.generate_token(b);
    assert!(ta != tb, "C15.O2 tokens of different IPs differ under one secret");
    // consequence: a token issued to `a` under the current secret is not accepted from `b`
    // through the current-secret slot
    kani::cover!(a.ip().octets()[0] == b.ip().octets()[0] && a.ip().octets()[3] != b.ip().octets()[3]);
}

//@ ob: C15.O3
//@ rss: 0.9
//@ time: 144
//@ tier: quick
//@ cap: 800
//@ standins: tracing
//@ desc: rotate(): prev' = curr, curr' = fresh random bytes, last_updated' = now; should_update() <=> more than 300 s since last_updated; a token issued before one rotation still validates, after two rotations its secret is in neither slot
//@ bounds: all secrets, symbolic clock instants t0 <= t1 (whole seconds, < 2^40), symbolic fresh secrets; unwind 26
//@ stubs: std::time::Instant::now -> symbolic whole-second clock; getrandom::fill -> preloaded symbolic bytes
//@ functions: Tokens::rotate, Tokens::should_update, Tokens::validate, tokens::random
#[kani::proof]
#[kani::stub(std::time::Instant::now, clock::now)]
#[kani::stub(getrandom::fill, rnd::fill)]
#[kani::unwind(26)]
fn c15_o3_rotation() {
    let t0: u64 = kani::any();
    let dt: u64 = kani::any();
    kani::assume(t0 < (1 << 40) && dt < (1 << 40));
    let fresh1: [u8; 20] = kani::env();
    let fresh2: [u8; 20] = kani::env();
    rnd::preload(&fresh1);
    rnd::preload(&fresh2);
    let mut t = any_tokens_at(t0);
    let a = any_addr();
    let issued = t.generate_token(a);
    let curr0 = t.curr_secret;
    clock::set(t0 + dt);
    assert!(t.should_update() == (dt > 300), "C15.O3 should_update iff more than 300 s elapsed");
    t.rotate();
    assert!(t.prev_secret == curr0, "C15.O3 rotate keeps the previous secret");
    assert!(t.curr_secret == fresh1, "C15.O3 rotate draws a fresh secret");
    assert!(!t.should_update(), "C15.O3 rotate resets the timer");
    assert!(t.validate(a, &issued), "C15.O3 token survives one rotation");
    t.rotate();
    assert!(t.prev_secret == fresh1 && t.curr_secret == fresh2, "C15.O3 second rotation drops the issuing secret");
    assert!(!crate::verif_env::cut_reached(), "CUT: random bytes exhausted");
    kani::cover!(dt > 300);
    kani::cover!(dt == 300);
}


impl Tokens {
    /// (current secret, previous secret) -- observation for composite harnesses
    pub(crate) fn kani_secrets(&self) -> ([u8; 20], [u8; 20]) {
        (self.curr_secret, self.prev_secret)
    }
}

//! C16 — `AsyncDht::get_mutable_most_recent`: the async twin of the fold in `dht.rs`.  The
//! harness plays the actor (as in harness/dht.rs) and polls the future with a no-op waker: every
//! poll is Ready because the items are queued and the sender is gone before the first poll.
//! Private names used: `AsyncDht(Dht)`, `Dht(Sender<ActorMessage>)`.
//! Stand-ins: `flume` (single-threaded FIFO with `into_stream`).  In native replay the same
//! harness runs over the real `flume` (items are queued before the future is polled).
use super::*;
#[allow(unused_imports)]
use crate::verif_env::k as kani;
use crate::actor::{ActorMessage, ResponseSender};
use std::future::Future;
use std::pin::Pin;
use std::task::{Context, Poll, Waker};

static mut SEQS: crate::verif_env::Ghost<[i64; 3]> = crate::verif_env::ghost(1, [0; 3]);
static mut VALS: crate::verif_env::Ghost<[u8; 3]> = crate::verif_env::ghost(2, [0; 3]);
static mut N: crate::verif_env::Ghost<usize> = crate::verif_env::ghost(3, 0);

fn serve(message: ActorMessage) {
    if let ActorMessage::Get(_, ResponseSender::Mutable(tx)) = message {
        let n = unsafe { N.v };
        let mut i = 0;
        while i < 3 {
            if i < n {
                let (seq, val) = unsafe { (SEQS.v[i], VALS.v[i]) };
                let item = MutableItem::new_signed_unchecked([0; 32], [0; 64], &[val], seq, None);
                let _ = tx.send(item);
            }
            i += 1;
        }
        drop(tx);
    }
}
fn send_stub(_d: &Dht, message: ActorMessage) {
    serve(message)
}
fn tfk_stub(_k: &[u8; 32], _s: Option<&[u8]>) -> crate::Id {
    crate::Id::from([3u8; 20])
}

fn scenario(n: usize) {
    // scalar draws (one trace assignment each: Kani's playback extraction skips whole-array draws)
    let seqs: [i64; 3] = [kani::any(), kani::any(), kani::any()];
    let vals: [u8; 3] = [kani::any(), kani::any(), kani::any()];
    unsafe {
        N.v = n;
        SEQS.v = seqs;
        VALS.v = vals;
    }
    let (tx, rx) = flume::unbounded::<ActorMessage>();
    let dht = AsyncDht(Dht(tx));
    let r = {
        // the future lives on the stack and is polled exactly once: every item is queued and the
        // sender is gone before the poll, so the fold must run to completion in this poll
        let fut = dht.get_mutable_most_recent(&[0; 32], None);
        let mut fut = std::pin::pin!(fut);
        let waker = Waker::noop();
        let mut cx = Context::from_waker(&waker);
        #[allow(unused_mut)]
        let mut polled = fut.as_mut().poll(&mut cx);
        #[cfg(verif_replay)]
        {
            // real flume: the first poll sends the request to the (absent) actor and parks on the
            // stream; the actor double then answers and the second poll runs the fold to completion
            if polled.is_pending() {
                if let Ok(m) = rx.try_recv() {
                    serve(m)
                }
                polled = fut.as_mut().poll(&mut cx);
            }
        }
        match polled {
            Poll::Ready(v) => v,
            Poll::Pending => {
                crate::verif_env::cut();
                None
            }
        }
    };
    // reference: maximum seq; among those the greatest value
    let mut best = 0usize;
    let mut i = 1;
    while i < 3 {
        if i < n && (seqs[i] > seqs[best] || (seqs[i] == seqs[best] && vals[i] > vals[best])) {
            best = i;
        }
        i += 1;
    }
    if n == 0 {
        assert!(r.is_none(), "C16 None only if nothing was delivered");
    } else {
        match &r {
            Some(item) => {
                assert!(item.seq() == seqs[best], "C16 most recent item has the maximum seq delivered");
                assert!(item.value() == &[vals[best]], "C16 ties on seq broken by greatest value");
            }
            None => assert!(false, "C16 an item was delivered so one is returned"),
        }
    }
    // (for n < 2 the order witnesses are inapplicable: trivially true there)
    kani::cover!(n < 2 || (best == n - 1 && seqs[n - 1] > seqs[0]));
    kani::cover!(n < 2 || (best == 0 && seqs[0] > seqs[n - 1]));
    kani::cover!(n < 2 || (seqs[0] == seqs[n - 1] && vals[0] != vals[n - 1]));
    kani::cover!(n != 1 || seqs[0] < 0);
    assert!(!crate::verif_env::cut_reached(), "CUT the future was not ready although every item was queued");
    std::mem::forget(r);
    std::mem::forget(dht);
    std::mem::forget(rx);
}

//@ ob: C16.O2z
//@ tier: quick
//@ cap: 800
//@ rss: 1.6
//@ time: 58
//@ standins: tracing lru vcoll flume
//@ desc: async twin: AsyncDht::get_mutable_most_recent returns None when nothing was delivered (n = 0)
//@ bounds: n = 0 delivered items; future polled with a no-op waker (Ready at the first poll: sender dropped); unwind 5
//@ stubs: Dht::send -> harness-side actor double delivering the items then dropping the sender; MutableItem::target_from_key -> fixed id (SHA-1 not the subject)
//@ functions: AsyncDht::get_mutable_most_recent, AsyncDht::get_mutable, GetStream::poll_next, flume stand-in RecvStream
#[kani::proof]
#[kani::stub(crate::dht::Dht::send, send_stub)]
#[kani::stub(crate::common::mutable::MutableItem::target_from_key, tfk_stub)]
#[kani::unwind(5)]
fn c16_o2z_async_most_recent_n0() {
    scenario(0);
}

//@ ob: C16.O2a
//@ tier: quick
//@ cap: 800
//@ rss: 2.0
//@ time: 81
//@ standins: tracing lru vcoll flume
//@ desc: async twin: AsyncDht::get_mutable_most_recent returns the single item delivered (n = 1), whatever its seq (including negative seqs and seq 0 with an empty-looking value)
//@ bounds: n = 1 delivered item (seq full i64, 1-byte value); future polled with a no-op waker (Ready at the first poll: all items queued, sender dropped); unwind 5
//@ stubs: as C16.O2z
//@ functions: AsyncDht::get_mutable_most_recent, AsyncDht::get_mutable, GetStream::poll_next, flume stand-in RecvStream
#[kani::proof]
#[kani::stub(crate::dht::Dht::send, send_stub)]
#[kani::stub(crate::common::mutable::MutableItem::target_from_key, tfk_stub)]
#[kani::unwind(5)]
fn c16_o2a_async_most_recent_n1() {
    scenario(1);
}

//@ ob: C16.O2b
//@ tier: quick
//@ cap: 800
//@ rss: 2.2
//@ time: 121
//@ standins: tracing lru vcoll flume
//@ desc: async twin, two delivered items in either order (symbolic seqs and values): the result has the maximum seq, ties broken by the greatest value
//@ bounds: n = 2; seq full i64, values 1 byte; unwind 5
//@ stubs: as C16.O2z
//@ functions: AsyncDht::get_mutable_most_recent
#[kani::proof]
#[kani::stub(crate::dht::Dht::send, send_stub)]
#[kani::stub(crate::common::mutable::MutableItem::target_from_key, tfk_stub)]
#[kani::unwind(5)]
fn c16_o2b_async_most_recent_n2() {
    scenario(2);
}

//@ ob: C16.O2c
//@ tier: quick
//@ cap: 800
//@ rss: 4.1
//@ time: 175
//@ standins: tracing lru vcoll flume
//@ desc: async twin, three delivered items: maximum seq, ties by greatest value
//@ bounds: n = 3; unwind 9
//@ stubs: as C16.O2a
//@ functions: AsyncDht::get_mutable_most_recent
#[kani::proof]
#[kani::stub(crate::dht::Dht::send, send_stub)]
#[kani::stub(crate::common::mutable::MutableItem::target_from_key, tfk_stub)]
#[kani::unwind(9)]
fn c16_o2c_async_most_recent_n3() {
    scenario(3);
}

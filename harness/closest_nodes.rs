//! C11 — closest-nodes accumulator order, take_until_secure prefix.
//! Private names used: `ClosestNodes { target, nodes }`.
//! Stand-ins: `vcoll::HashSet` (take_until_secure / subnets_count only).
use super::*;
#[allow(unused_imports)]
use crate::verif_env::k as kani;
use crate::verif_env::clock;
use std::net::SocketAddrV4;

pub(crate) fn any_node_full() -> Node {
    let a: [u8; 20] = kani::env();
    Node::new(Id::from(a), SocketAddrV4::new(kani::any::<u32>().into(), kani::any()))
}

/// id = [b0, b1, b2, 0.., r]: the 21-bit BEP42 prefix and r symbolic (so secure and insecure
/// nodes both occur for public IPs), XOR ties on the leading bytes possible.
pub(crate) fn any_node_4() -> Node {
    let mut a = [0u8; 20];
    a[0] = kani::any();
    a[1] = kani::any();
    a[2] = kani::any();
    a[19] = kani::any();
    Node::new(Id::from(a), SocketAddrV4::new(kani::any::<u32>().into(), 6881))
}

/// same entry (the very same Arc): cheap identity instead of a deep field-by-field compare
pub(crate) fn same(a: &Node, b: &Node) -> bool {
    std::sync::Arc::ptr_eq(&a.0, &b.0)
}

/// the order the property states: BEP42-secure first, then XOR distance to the target
pub(crate) fn in_order(p: &Node, q: &Node, t: &Id) -> bool {
    let (sp, sq) = (p.is_secure(), q.is_secure());
    if sp != sq {
        return sp;
    }
    p.id().xor(t) <= q.id().xor(t)
}

//@ ob: C11.O1
//@ also: C07
//@ rss: 2.4
//@ time: 372
//@ tier: quick
//@ cap: 800
//@ standins: vcoll
//@ desc: comparator: ClosestNodes::add(x) into a one-element accumulator [p], everything symbolic (two full ids, two full addresses, full target, real BEP42 CRC): the result is ordered (secure first, then XOR distance big-endian), contains p, and contains x unless x is refused by the per-IP rule or carries p's id
//@ bounds: all 2^160 targets x 2 nodes with fully symbolic id/ip/port; unwind 21
//@ stubs: std::time::Instant::now -> symbolic whole-second clock
//@ functions: ClosestNodes::add, Node::already_exists, Node::is_secure, Id::is_valid_for_ip, Id::xor, slice::binary_search_by
#[kani::proof]
#[kani::stub(std::time::Instant::now, clock::now)]
#[kani::unwind(21)]
fn c11_o1_singleton_add() {
    clock::set(0);
    let target: [u8; 20] = kani::env();
    let t = Id::from(target);
    let first = any_node_full();
    let second = any_node_full();
    let refused = second.already_exists(std::slice::from_ref(&first));
    let same_id = first.id() == second.id();
    let mut c = ClosestNodes { target: t, nodes: vec![first.clone()] };
    c.add(second.clone());
    let ns = c.nodes();
    assert!(ns.len() == 1 || ns.len() == 2, "C11.O1 add inserts at most one node");
    if ns.len() == 2 {
        assert!(in_order(&ns[0], &ns[1], &t), "C11.O1 accumulator ordered secure-first then XOR distance");
        assert!(!refused, "C11.O1 per-IP rule respected");
        let has_first = same(&ns[0], &first) || same(&ns[1], &first);
        let has_second = same(&ns[0], &second) || same(&ns[1], &second);
        assert!(has_first && has_second, "C11.O1 accumulator holds exactly the old node and the new one");
    } else {
        assert!(same(&ns[0], &first), "C11.O1 existing node kept");
        assert!(refused || same_id, "C11.O1 a new acceptable node is inserted");
    }
    kani::cover!(ns.len() == 2 && same(&ns[0], &second));
    kani::cover!(ns.len() == 2 && same(&ns[0], &first) && !first.is_secure());
    kani::cover!(ns.len() == 2 && second.is_secure() && !first.is_secure());
    kani::cover!(ns.len() == 1 && refused);
    std::mem::forget(c);
}

//@ ob: C11.O2
//@ tier: off
//@ cap: 3000
//@ rss: 6.7
//@ time: 1714
//@ standins: vcoll
//@ desc: inductive step: an accumulator of 2 nodes satisfying Inv plus one symbolic add satisfies Inv again; the old nodes are kept in their order; the new node is inserted unless refused by the per-IP rule or its id is already present
//@ bounds: target and 3 nodes with ids [b0,b1,b2,0..,r] (4 symbolic bytes each: BEP42 prefix + r, XOR ties on leading bytes) and fully symbolic IPv4; unwind 21
//@ inv: nodes pairwise in order (secure first, then XOR distance to target) and pairwise not already_exists (per-IP rule)
//@ stubs: std::time::Instant::now -> symbolic whole-second clock
//@ functions: ClosestNodes::add, Node::already_exists, Node::is_secure, Id::is_valid_for_ip, Id::xor, slice::binary_search_by
#[kani::proof]
#[kani::stub(std::time::Instant::now, clock::now)]
#[kani::unwind(21)]
fn c11_o2_inductive_add_2() {
    inductive_add_2();
}

//@ ob: C11.O2u
//@ tier: thorough
//@ cap: 2400
//@ rss: 4.0
//@ time: 554
//@ standins: vcoll
//@ desc: the same inductive step as C11.O2 with the BEP42 prefix function abstracted: id_prefix_ipv4 (CRC32C of the masked IP and r) is an uninterpreted function P(ip, r), so the step holds for every way of classifying nodes as secure that is a function of (ip, r) and the id's 21-bit prefix; C11.O1 and C19.O3 bind the real CRC
//@ bounds: as C11.O2 (target and 3 nodes with 4 symbolic id bytes each, fully symbolic IPv4); P: at most 4 distinct (ip, r) arguments; unwind 21
//@ inv: as C11.O2
//@ stubs: id::id_prefix_ipv4 -> uninterpreted function P (ghost table, pre-drawn outputs); std::time::Instant::now -> symbolic whole-second clock
//@ functions: ClosestNodes::add, Node::already_exists, Node::is_secure, Id::is_valid_for_ip (exempt ranges + 21-bit compare), Id::xor, slice::binary_search_by
#[kani::proof]
#[kani::stub(std::time::Instant::now, clock::now)]
#[kani::stub(crate::common::id::id_prefix_ipv4, crate::verif_env::ufp::prefix)]
#[kani::unwind(21)]
fn c11_o2u_inductive_add_2_uf() {
    let outs: [[u8; 3]; 4] = kani::env();
    crate::verif_env::ufp::arm(outs);
    inductive_add_2();
    assert!(!crate::verif_env::cut_reached(), "CUT: more distinct (ip, r) pairs than P has slots");
}

fn inductive_add_2() {
    clock::set(0);
    let mut tb = [0u8; 20];
    tb[0] = kani::any();
    tb[1] = kani::any();
    tb[2] = kani::any();
    tb[19] = kani::any();
    let t = Id::from(tb);
    let n0 = any_node_4();
    let n1 = any_node_4();
    // Inv on the pre-state
    kani::assume(in_order(&n0, &n1, &t));
    kani::assume(n0.id() != n1.id());
    kani::assume(!n1.already_exists(std::slice::from_ref(&n0)));
    kani::assume(!n0.already_exists(std::slice::from_ref(&n1)));
    let x = any_node_4();
    let old = [n0.clone(), n1.clone()];
    let refused = x.already_exists(&old);
    let id_present = x.id() == n0.id() || x.id() == n1.id();
    let mut c = ClosestNodes { target: t, nodes: vec![n0.clone(), n1.clone()] };
    c.add(x.clone());
    let ns = c.nodes();
    assert!(ns.len() == 2 || ns.len() == 3, "C11.O2 add inserts at most one node");
    // sorted
    assert!(in_order(&ns[0], &ns[1], &t), "C11.O2 accumulator stays ordered");
    if ns.len() == 3 {
        assert!(in_order(&ns[1], &ns[2], &t), "C11.O2 accumulator stays ordered");
        assert!(!refused, "C11.O2 per-IP rule respected");
        // old nodes kept, in order, and x present
        let p0 = if same(&ns[0], &n0) { 0 } else if same(&ns[1], &n0) { 1 } else { 3 };
        let p1 = if same(&ns[1], &n1) { 1 } else if same(&ns[2], &n1) { 2 } else { 3 };
        assert!(p0 < p1 && p1 < 3, "C11.O2 old nodes kept in order");
        assert!(same(&ns[0], &x) || same(&ns[1], &x) || same(&ns[2], &x), "C11.O2 new node present");
    } else {
        assert!(same(&ns[0], &n0) && same(&ns[1], &n1), "C11.O2 old nodes kept in order");
        assert!(refused || id_present, "C11.O2 a new acceptable node is inserted");
    }
    kani::cover!(ns.len() == 3 && same(&ns[0], &x));
    kani::cover!(ns.len() == 3 && same(&ns[1], &x));
    kani::cover!(ns.len() == 3 && same(&ns[2], &x));
    kani::cover!(ns.len() == 3 && n0.is_secure() && !n1.is_secure());
    kani::cover!(ns.len() == 2 && refused);
    std::mem::forget(c);
}

fn node_at(i: u8) -> Node {
    let mut a = [0u8; 20];
    a[0] = i + 1;
    // distinct /6 subnets for the first 4, then shared ones
    Node::new(Id::from(a), SocketAddrV4::new([10 + (i % 4) * 64, i, 0, 1].into(), 6881))
}

//@ ob: C11.O4
//@ tier: off
//@ cap: 3000
//@ mem: 28
//@ standins: vcoll
//@ desc: take_until_secure(est, subnets) returns a prefix of the accumulator (same base pointer) of length >= min(20, n) and <= n, on 22 concrete nodes, for symbolic subnets and est in {0, 1, 20, 1000, 10^6, 10^7, usize::MAX}
//@ bounds: 22 concrete nodes, est from the stated 7-value set (a symbolic f64 division is out of reach: 37 GB), subnets fully symbolic; unwind 24
//@ stubs: std::time::Instant::now -> symbolic whole-second clock
//@ functions: ClosestNodes::take_until_secure, closest_nodes::distance, closest_nodes::subnet
#[kani::proof]
#[kani::stub(std::time::Instant::now, clock::now)]
#[kani::unwind(24)]
fn c11_o4_take_until_secure_prefix() {
    clock::set(0);
    let t = Id::from([0u8; 20]);
    let mut nodes = Vec::with_capacity(22);
    let mut i = 0u8;
    while i < 22 {
        nodes.push(node_at(i));
        i += 1;
    }
    let c = ClosestNodes { target: t, nodes };
    let which: u8 = kani::any();
    let est: usize = match which {
        0 => 0,
        1 => 1,
        2 => 20,
        3 => 1000,
        4 => 1_000_000,
        5 => 10_000_000,
        _ => usize::MAX,
    };
    let subnets: usize = kani::any();
    let out = c.take_until_secure(est, subnets);
    assert!(out.len() >= 20 && out.len() <= 22, "C11.O4 take_until_secure length in [min(20,n), n]");
    assert!(out.as_ptr() == c.nodes.as_ptr(), "C11.O4 take_until_secure returns a prefix");
    kani::cover!(out.len() == 22);
    kani::cover!(out.len() == 20);
    std::mem::forget(c);
}

//@ ob: C11.O4b
//@ tier: quick
//@ cap: 800
//@ standins: vcoll
//@ desc: take_until_secure on fewer than 20 nodes (n = 3) returns all of them as a prefix for symbolic est/subnets drawn from the value set
//@ bounds: 3 concrete nodes; est in {0, 1, 1000, usize::MAX}; subnets symbolic; unwind 22 (20-byte id xor)
//@ stubs: std::time::Instant::now -> symbolic whole-second clock
//@ functions: ClosestNodes::take_until_secure
#[kani::proof]
#[kani::stub(std::time::Instant::now, clock::now)]
#[kani::unwind(22)]
fn c11_o4b_take_until_secure_small() {
    clock::set(0);
    let t = Id::from([0u8; 20]);
    let nodes = vec![node_at(0), node_at(1), node_at(2)];
    let c = ClosestNodes { target: t, nodes };
    let which: u8 = kani::any();
    let est: usize = match which {
        0 => 0,
        1 => 1,
        2 => 1000,
        _ => usize::MAX,
    };
    let subnets: usize = kani::any();
    let out = c.take_until_secure(est, subnets);
    assert!(out.len() == 3, "C11.O4 take_until_secure length in [min(20,n), n]");
    assert!(out.as_ptr() == c.nodes.as_ptr(), "C11.O4 take_until_secure returns a prefix");
    kani::cover!(subnets == 0);
    kani::cover!(subnets > 3);
    std::mem::forget(c);
}

/// i-th of 20 insecure nodes on distinct public IPs, ids [0, 0x10 + i, 0..]: increasing XOR
/// distance to the all-zero target
fn plain_node(i: u8) -> Node {
    let mut a = [0u8; 20];
    a[1] = 0x10 + i;
    Node::new(Id::from(a), SocketAddrV4::new([11, 0, i, 1].into(), 6881))
}

//@ ob: C11.O2c
//@ tier: off
//@ cap: 2400
//@ standins: vcoll
//@ also: C07
//@ desc: inductive step at lookup size: one symbolic add into an accumulator already holding 20 nodes (insecure, distinct public IPs, ordered): the new node lands exactly where the order (secure first, then XOR distance) puts it -- a BEP42-secure newcomer goes to the front even when it is farther than every held node, an insecure one between its XOR neighbours -- the 20 old nodes keep their relative order, nothing is dropped
//@ bounds: 20 concrete held nodes (ids [0,0x10+i,0..], IPs 11.0.i.1), target all-zero; newcomer id [b0,b1,b2,0..,r] (4 symbolic bytes: BEP42 prefix + r) and fully symbolic IPv4; unwind 23
//@ inv: nodes pairwise in order and pairwise not already_exists
//@ stubs: std::time::Instant::now -> symbolic whole-second clock
//@ functions: ClosestNodes::add, Node::already_exists, Node::is_secure, Id::is_valid_for_ip, Id::xor, slice::binary_search_by, Vec::insert
#[kani::proof]
#[kani::stub(std::time::Instant::now, clock::now)]
#[kani::unwind(23)]
fn c11_o2c_add_into_twenty() {
    clock::set(0);
    let t = Id::from([0u8; 20]);
    let mut held: Vec<Node> = Vec::with_capacity(21);
    let mut i = 0u8;
    while i < 20 {
        held.push(plain_node(i));
        i += 1;
    }
    let old = held.clone();
    let x = any_node_4();
    let sx = x.is_secure();
    let refused = x.already_exists(&old);
    let dx = x.id().xor(&t);
    let mut c = ClosestNodes { target: t, nodes: held };
    c.add(x.clone());
    let ns = c.nodes();
    let mut id_present = false;
    let mut pos = 99usize;
    let mut k = 0usize; // index into old
    let mut i = 0usize;
    while i < 21 {
        if i < ns.len() {
            if same(&ns[i], &x) {
                pos = i;
            } else {
                assert!(k < 20 && same(&ns[i], &old[k]), "C11.O2 old nodes kept in order");
                k += 1;
            }
        }
        if i < 20 {
            if old[i].id() == x.id() {
                id_present = true;
            }
            assert!(!old[i].is_secure(), "CUT harness premise: the 20 held nodes are not BEP42-secure");
        }
        i += 1;
    }
    assert!(k == 20, "C11.O2 nothing is dropped from the accumulator");
    if pos == 99 {
        assert!(ns.len() == 20 && (refused || id_present), "C11.O2 a new acceptable node is inserted");
    } else {
        assert!(ns.len() == 21 && !refused, "C11.O2 per-IP rule respected");
        // the held nodes are all insecure: a secure newcomer must be first; an insecure one sits
        // between its XOR neighbours
        if sx {
            assert!(pos == 0, "C11.O2 accumulator stays ordered (secure first)");
        } else {
            if pos > 0 {
                assert!(old[pos - 1].id().xor(&t) <= dx, "C11.O2 accumulator stays ordered");
            }
            if pos < 20 {
                assert!(dx <= old[pos].id().xor(&t), "C11.O2 accumulator stays ordered");
            }
        }
    }
    kani::cover!(pos == 0 && sx && dx > old[19].id().xor(&t));
    kani::cover!(pos == 20 && !sx);
    kani::cover!(pos == 7 && !sx);
    kani::cover!(pos == 99 && refused);
    std::mem::forget(c);
    std::mem::forget(old);
}

/// Direct construction for harnesses of other modules (caller guarantees the order invariant).
pub(crate) fn closest_from(target: Id, nodes: Vec<Node>) -> ClosestNodes {
    ClosestNodes { target, nodes }
}

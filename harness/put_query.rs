//! C08 (put results tell the truth), C05.O4/O5 (counters, caller-side unreachable!), C06.O3a
//! (a started put has something in flight), C17.O2/O3.
//! Private names used: `PutQuery { target, stored_at, inflight_requests, request, errors,
//! extra_nodes }`.
//! Stand-ins: `tracing`.
//! @needs: socket
use super::*;
#[allow(unused_imports)]
use crate::verif_env::k as kani;
use crate::actor::socket::kani_h::{fake_socket, rtt_stub, send_stub, srt_stub, SENT_N, SENT_TO, SENT_TOKEN};
use crate::common::{
    AnnouncePeerRequestArguments, AnnounceSignedPeerRequestArguments, PutImmutableRequestArguments,
    PutMutableRequestArguments,
};
use crate::verif_env::{clock, rnd};
use std::net::SocketAddrV4;

const T: [u8; 20] = [1u8; 20];

fn request_of(kind: u8) -> PutRequestSpecific {
    match kind {
        0 => PutRequestSpecific::AnnouncePeer(AnnouncePeerRequestArguments { info_hash: Id::from(T), port: 1, implied_port: None }),
        1 => PutRequestSpecific::AnnounceSignedPeer(AnnounceSignedPeerRequestArguments { info_hash: Id::from(T), t: 5, k: [3; 32], sig: [4; 64] }),
        2 => PutRequestSpecific::PutImmutable(PutImmutableRequestArguments { target: Id::from(T), v: Box::new([7]) }),
        _ => PutRequestSpecific::PutMutable(PutMutableRequestArguments { target: Id::from(T), v: Box::new([7]), k: [3; 32], seq: 1, sig: [4; 64], salt: None, cas: None }),
    }
}

/// tallies of what was delivered to the put
struct Tally {
    acks: u32,
    n301: u32,
    n302: u32,
    other: u32,
    lost: u32,
}

/// one symbolic event for a request: 0 = ack, 1 = error(symbolic code), else lost.
/// An answered request is no longer in flight at the socket.  Removing it from the socket table
/// makes later table indices symbolic (CBMC runs out of memory on that), so the harness gets
/// the same observable -- `socket.inflight(tid)` false -- by stamping the answered requests
/// 100 s earlier than the unanswered ones: at the "early" check (t = 100) exactly the answered
/// requests are no longer in flight, at the "late" check (t = 200) none is.  (The stamps are
/// not sorted by time as in a real table; only `get`, which searches by tid, is used here.)
fn draw_event(t: &mut Tally) -> (u8, i32) {
    let ev: u8 = kani::any();
    let code: i32 = kani::any();
    if ev == 0 {
        t.acks += 1;
    } else if ev == 1 {
        if code == 301 {
            t.n301 += 1;
        } else if code == 302 {
            t.n302 += 1;
        } else {
            t.other += 1;
        }
    } else {
        t.lost += 1;
    }
    (ev, code)
}

fn check_final(res: &Result<bool, PutError>, is_mutable: bool, t: &Tally) {
    match res {
        Ok(done) => {
            assert!(*done, "C08.O1 a finished put reports a result");
            assert!(t.acks >= 1, "C08.O1 Ok only if at least one acknowledgement arrived");
        }
        Err(PutError::Concurrency(ConcurrencyError::CasFailed)) => {
            assert!(is_mutable, "C05.O5 concurrency errors only for put_mutable");
            assert!(t.n301 >= 1 && t.acks == 0, "C08.O1 CasFailed only if a node answered 301");
        }
        Err(PutError::Concurrency(ConcurrencyError::NotMostRecent)) => {
            assert!(is_mutable, "C05.O5 concurrency errors only for put_mutable");
            assert!(t.n302 >= 1 && t.acks == 0, "C08.O1 NotMostRecent only if a node answered 302");
        }
        Err(PutError::Concurrency(ConcurrencyError::ConflictRisk)) => {
            assert!(false, "C08.O1 ConflictRisk is never a network result");
        }
        Err(PutError::Query(_)) => {
            assert!(t.acks == 0, "C08.O1 an acknowledged put succeeds");
        }
    }
}

fn check_early(res: &Result<bool, PutError>, is_mutable: bool, n: u32, t: &Tally) {
    // before any request expired
    let all_answered = t.lost == 0;
    if all_answered {
        check_final(res, is_mutable, t);
        return;
    }
    let half = n / 2 + 1;
    match res {
        Ok(done) => {
            assert!(!*done, "C08.O2 a put with unanswered live requests is not done");
            assert!(!(is_mutable && (t.n301 >= half || t.n302 >= half)), "C08.O2 majority 301/302 fails a mutable put early");
        }
        Err(PutError::Concurrency(ConcurrencyError::CasFailed)) => {
            assert!(is_mutable, "C05.O5 concurrency errors only for put_mutable");
            assert!(t.n301 >= half, "C08.O2 early CasFailed needs a majority of 301 replies");
        }
        Err(PutError::Concurrency(ConcurrencyError::NotMostRecent)) => {
            assert!(is_mutable, "C05.O5 concurrency errors only for put_mutable");
            assert!(t.n302 >= half, "C08.O2 early NotMostRecent needs a majority of 302 replies");
        }
        Err(_) => {
            assert!(false, "C08.O2 no other early failure");
        }
    }
}

fn scenario(n: usize, fixed_kind: Option<u8>) {
    let mut s = fake_socket(false);
    let kind: u8 = match fixed_kind {
        Some(k) => k,
        None => kani::any(),
    };
    kani::assume(kind < 4);
    let is_mutable = kind == 3;
    let mut q = PutQuery::new(request_of(kind), None);
    let mut t = Tally { acks: 0, n301: 0, n302: 0, other: 0, lost: 0 };
    let mut evs = [(2u8, 0i32); 3];
    let mut i = 0;
    while i < 3 {
        if i < n {
            evs[i] = draw_event(&mut t);
        }
        i += 1;
    }
    // every request is added in index order (the table keeps a concrete shape); an answered one is
    // stamped 100 s earlier than an unanswered one.  PutQuery only observes socket.inflight(tid).
    let mut i = 0;
    while i < 3 {
        if i < n {
            clock::set(if evs[i].0 <= 1 { 0 } else { 100 });
            let tid = s.kani_add_inflight(SocketAddrV4::new([10, 0, 0, 1 + i as u8].into(), 1));
            q.inflight_requests.push(tid);
        }
        i += 1;
    }
    clock::set(100);
    let mut i = 0;
    while i < 3 {
        if i < n {
            if evs[i].0 == 0 {
                q.success();
            } else if evs[i].0 == 1 {
                q.error(ErrorSpecific { code: evs[i].1, description: String::new() });
            }
        }
        i += 1;
    }
    let early = q.check(&s);
    check_early(&early, is_mutable, n as u32, &t);
    clock::set(200);
    let late = q.check(&s);
    check_final(&late, is_mutable, &t);
    kani::cover!(matches!(late, Ok(true)));
    kani::cover!(matches!(late, Err(PutError::Query(_))));
    // (instances with a fixed kind make one of these two witnesses inapplicable: trivially true there)
    let mutable_possible = fixed_kind.is_none() || fixed_kind == Some(3);
    let other_possible = fixed_kind != Some(3);
    kani::cover!(!mutable_possible || (is_mutable && matches!(late, Err(PutError::Concurrency(_)))));
    kani::cover!(!other_possible || (!is_mutable && t.n301 >= 1 && t.acks == 0));
    std::mem::forget(early);
    std::mem::forget(late);
    std::mem::forget(q);
    std::mem::forget(s);
}

//@ ob: C08.O1a
//@ rss: 0.3
//@ time: 14
//@ tier: quick
//@ cap: 800
//@ standins: tracing
//@ also: C05 C17
//@ desc: one replica: for every put kind (announce_peer, announce_signed_peer, put_immutable, put_mutable) and every event for its request (ack, error with any i32 code, lost): check() before expiry and after expiry returns Ok(true) only with an ack, CasFailed/NotMostRecent only for put_mutable and only if a 301/302 was delivered, a query error otherwise, and never 'not done' after expiry
//@ bounds: n = 1 request; 4 put kinds; symbolic event + i32 code; answered requests modelled as already expired at the early check; whole-second clock; unwind 6
//@ stubs: std::time::Instant::now -> symbolic clock; InflightRequests::update_rtt_estimates -> no-op; alloc::fmt::format -> empty
//@ functions: PutQuery::{success,error,check,is_done,most_common_error,majority_nodes_rejected_put_mutable}, KrpcSocket::inflight
#[kani::proof]
#[kani::stub(std::time::Instant::now, clock::now)]
#[kani::stub(crate::actor::socket::InflightRequests::update_rtt_estimates, rtt_stub)]
#[kani::unwind(6)]
fn c08_o1a_put_result_n1() {
    scenario(1, None);
}

//@ ob: C08.O1b
//@ rss: 2.7
//@ time: 72
//@ tier: quick
//@ cap: 800
//@ standins: tracing
//@ also: C05 C17
//@ desc: two replicas, announce_peer: same claims as C08.O1a over all event pairs (acks, errors with any i32 codes incl. 301/302, losses): never a concurrency error, Ok iff an ack arrived
//@ bounds: n = 2 requests; put kind announce_peer; 2 symbolic events + codes; unwind 7
//@ stubs: std::time::Instant::now -> symbolic clock; InflightRequests::update_rtt_estimates -> no-op
//@ functions: PutQuery::{success,error,check,is_done,most_common_error,majority_nodes_rejected_put_mutable}
#[kani::proof]
#[kani::stub(std::time::Instant::now, clock::now)]
#[kani::stub(crate::actor::socket::InflightRequests::update_rtt_estimates, rtt_stub)]
#[kani::unwind(7)]
fn c08_o1b_put_result_n2_announce() {
    scenario(2, Some(0));
}

//@ ob: C08.O1m
//@ rss: 6.8
//@ time: 130
//@ tier: quick
//@ cap: 800
//@ standins: tracing
//@ also: C05 C17
//@ desc: two replicas, put_mutable: same claims, including the early-failure majority rule (threshold 2 of 2: both replies 301, or both 302, fail the put before expiry; one does not)
//@ bounds: n = 2 requests; put kind put_mutable; 2 symbolic events + codes; unwind 7
//@ stubs: std::time::Instant::now -> symbolic clock; InflightRequests::update_rtt_estimates -> no-op
//@ functions: PutQuery::{success,error,check,is_done,most_common_error,majority_nodes_rejected_put_mutable}
#[kani::proof]
#[kani::stub(std::time::Instant::now, clock::now)]
#[kani::stub(crate::actor::socket::InflightRequests::update_rtt_estimates, rtt_stub)]
#[kani::unwind(7)]
fn c08_o1m_put_result_n2_mutable() {
    scenario(2, Some(3));
}

//@ ob: C08.O1c
//@ tier: off
//@ cap: 2700
//@ mem: 28
//@ standins: tracing
//@ also: C05 C17
//@ desc: three replicas, put_mutable: same claims; the majority threshold is 2 of 3 (a single 301 with two unanswered live requests does not fail the put; two do)
//@ bounds: n = 3 requests; put_mutable; 3 symbolic events + codes; unwind 8
//@ stubs: std::time::Instant::now -> symbolic clock; InflightRequests::update_rtt_estimates -> no-op
//@ functions: PutQuery::{success,error,check,is_done,most_common_error,majority_nodes_rejected_put_mutable}
#[kani::proof]
#[kani::stub(std::time::Instant::now, clock::now)]
#[kani::stub(crate::actor::socket::InflightRequests::update_rtt_estimates, rtt_stub)]
#[kani::unwind(8)]
fn c08_o1c_put_result_n3_mutable() {
    scenario(3, Some(3));
}

//@ ob: C08.O1d
//@ tier: off
//@ cap: 2700
//@ mem: 28
//@ standins: tracing
//@ also: C05 C17
//@ desc: three replicas, put_immutable: never a concurrency error whatever codes arrive
//@ bounds: n = 3 requests; put_immutable; 3 symbolic events + codes; unwind 8
//@ stubs: std::time::Instant::now -> symbolic clock; InflightRequests::update_rtt_estimates -> no-op
//@ functions: PutQuery::{success,error,check}
#[kani::proof]
#[kani::stub(std::time::Instant::now, clock::now)]
#[kani::stub(crate::actor::socket::InflightRequests::update_rtt_estimates, rtt_stub)]
#[kani::unwind(8)]
fn c08_o1d_put_result_n3_immutable() {
    scenario(3, Some(2));
}

fn tok_node(i: u8, has: bool, tok: [u8; 4]) -> Node {
    let mut id = [0u8; 20];
    id[0] = 0x20 + i;
    let a = SocketAddrV4::new([10, 0, 0, 1 + i].into(), 1000 + i as u16);
    if has {
        Node::new_with_token(Id::from(id), a, Box::new(tok))
    } else {
        Node::new(Id::from(id), a)
    }
}

fn start_scenario(n: usize) {
    clock::set(0);
    let mut s = fake_socket(false);
    let has: [bool; 3] = [kani::any(), kani::any(), kani::any()];
    let toks: [[u8; 4]; 3] = kani::any();
    let with_extra: bool = kani::any();
    let closest = [tok_node(0, has[0], toks[0]), tok_node(1, has[1], toks[1])];
    let extra: Option<Box<[Node]>> = if with_extra { Some(Box::new([tok_node(2, has[2], toks[2])])) } else { None };
    let mut q = PutQuery::new(request_of(0), extra);
    let r = q.start(&mut s, &closest[..n]);
    let sent = unsafe { SENT_N.v };
    if n == 0 {
        assert!(matches!(r, Err(PutError::Query(PutQueryError::NoClosestNodes))), "C08.O3 NoClosestNodes iff no closest nodes");
        assert!(sent == 0, "C08.O3 nothing sent without closest nodes");
    } else {
        let mut expect = 0usize;
        let mut i = 0;
        while i < 3 {
            let included = if i < 2 { i < n } else { with_extra };
            if included && has[i] {
                // the expect-th datagram goes to node i with node i's token
                let (to, tk) = unsafe { (SENT_TO.v[expect], SENT_TOKEN.v[expect]) };
                assert!(to == Some(SocketAddrV4::new([10, 0, 0, 1 + i as u8].into(), 1000 + i as u16)), "C08.O3 request addressed to the token-bearing node");
                assert!(tk == toks[i], "C08.O3 each node gets its own token");
                expect += 1;
            }
            i += 1;
        }
        assert!(sent == expect, "C08.O3 exactly one request per token-bearing node");
        assert!(q.inflight_requests.len() == expect, "C08.O3 every sent request is tracked");
        if r.is_ok() {
            assert!(q.started(), "C06.O3a a put that reports started has a request in flight");
        } else {
            assert!(expect == 0, "C08.O3 start fails only when nothing could be sent");
        }
    }
    kani::cover!(sent == n + 1);
    kani::cover!(n > 0 && sent == 0);
    kani::cover!(sent == 1 && !with_extra);
    std::mem::forget(q);
    std::mem::forget(s);
    std::mem::forget(closest);
}

//@ ob: C08.O3
//@ tier: thorough
//@ cap: 1800
//@ rss: 6
//@ time: 478
//@ standins: tracing
//@ also: C06
//@ desc: start() through the real KrpcSocket::request (send stubbed by a ghost log): exactly one request per token-bearing node, addressed to that node and carrying that node's own token; none to token-less nodes; extra nodes are addressed too; and C06.O3a: Ok(()) implies the put has a request in flight (otherwise the caller would wait forever) -- start fails with an error when nothing could be sent
//@ bounds: 2 closest nodes + optional extra node, each with symbolic token presence and symbolic 4-byte token; unwind 6
//@ stubs: std::time::Instant::now -> symbolic clock; KrpcSocket::send -> ghost log; UdpSocket::set_read_timeout -> Ok; Id::random -> fixed id
//@ functions: PutQuery::{start,started}, KrpcSocket::request, InflightRequests::add
#[kani::proof]
#[kani::stub(std::time::Instant::now, clock::now)]
#[kani::stub(crate::actor::socket::KrpcSocket::send, send_stub)]
#[kani::stub(std::net::UdpSocket::set_read_timeout, srt_stub)]
#[kani::stub(crate::common::id::Id::random, rnd::fixed_id)]
#[kani::unwind(6)]
fn c08_o3_start_one_request_per_token() {
    start_scenario(2);
}

//@ ob: C08.O3b
//@ rss: 0.3
//@ time: 7
//@ tier: quick
//@ cap: 800
//@ standins: tracing
//@ desc: start() with an empty closest list fails with NoClosestNodes and sends nothing, even when extra nodes with tokens are given
//@ bounds: 0 closest nodes, optional extra node with symbolic token presence; unwind 6
//@ stubs: as C08.O3
//@ functions: PutQuery::start
#[kani::proof]
#[kani::stub(std::time::Instant::now, clock::now)]
#[kani::stub(crate::actor::socket::KrpcSocket::send, send_stub)]
#[kani::stub(std::net::UdpSocket::set_read_timeout, srt_stub)]
#[kani::stub(crate::common::id::Id::random, rnd::fixed_id)]
#[kani::unwind(6)]
fn c08_o3b_start_without_closest() {
    clock::set(0);
    let mut s = fake_socket(false);
    let has: bool = kani::any();
    let with_extra: bool = kani::any();
    let extra: Option<Box<[Node]>> = if with_extra { Some(Box::new([tok_node(2, has, [1, 2, 3, 4])])) } else { None };
    let mut q = PutQuery::new(request_of(0), extra);
    let r = q.start(&mut s, &[]);
    assert!(matches!(r, Err(PutError::Query(PutQueryError::NoClosestNodes))), "C08.O3 NoClosestNodes iff no closest nodes");
    assert!(unsafe { SENT_N.v } == 0 && !q.started(), "C08.O3 nothing sent without closest nodes");
    kani::cover!(with_extra && has);
    kani::cover!(!with_extra);
    std::mem::forget(r);
    std::mem::forget(q);
    std::mem::forget(s);
}

//@ ob: C05.O4a
//@ rss: 0.2
//@ time: 6
//@ tier: quick
//@ cap: 800
//@ standins: tracing
//@ also: C08
//@ desc: the acknowledgement counter does not wrap: 256 acknowledgements (255 closest + extra nodes) are counted without overflow and the put reports Ok
//@ bounds: concrete 256 acks on one query; harness loop unwound 258 times, every other loop 6
//@ stubs: std::time::Instant::now -> symbolic clock; InflightRequests::update_rtt_estimates -> no-op
//@ functions: PutQuery::{success,check}
//@ unwindset: kani_h::c05_o4a_ack_counter_256 = 258
#[kani::proof]
#[kani::stub(std::time::Instant::now, clock::now)]
#[kani::stub(crate::actor::socket::InflightRequests::update_rtt_estimates, rtt_stub)]
#[kani::unwind(6)]
fn c05_o4a_ack_counter_256() {
    clock::set(0);
    let mut s = fake_socket(false);
    let tid = s.kani_add_inflight(SocketAddrV4::new([10, 0, 0, 1].into(), 1));
    let mut q = PutQuery::new(request_of(3), None);
    q.inflight_requests.push(tid);
    let mut i = 0u32;
    while i < 256 {
        q.success();
        i += 1;
    }
    clock::set(100);
    let r = q.check(&s);
    assert!(matches!(r, Ok(true)), "C05.O4 256 acknowledgements still mean Ok");
    kani::cover!(true);
    std::mem::forget(r);
    std::mem::forget(q);
    std::mem::forget(s);
}

//@ ob: C05.O4c
//@ tier: off
//@ cap: 2400
//@ mem: 28
//@ standins: tracing
//@ also: C08
//@ desc: the per-code error counter does not wrap: 256 identical 301 replies are counted without overflow and a put_mutable reports CasFailed
//@ bounds: concrete 256 error replies; harness loop unwound 258 times, every other loop 6
//@ stubs: std::time::Instant::now -> symbolic clock; InflightRequests::update_rtt_estimates -> no-op
//@ functions: PutQuery::{error,check}
//@ unwindset: kani_h::c05_o4c_error_counter_256 = 258
#[kani::proof]
#[kani::stub(std::time::Instant::now, clock::now)]
#[kani::stub(crate::actor::socket::InflightRequests::update_rtt_estimates, rtt_stub)]
#[kani::unwind(6)]
fn c05_o4c_error_counter_256() {
    clock::set(0);
    let mut s = fake_socket(false);
    let tid = s.kani_add_inflight(SocketAddrV4::new([10, 0, 0, 1].into(), 1));
    let mut q = PutQuery::new(request_of(3), None);
    q.inflight_requests.push(tid);
    let mut i = 0u32;
    while i < 256 {
        q.error(ErrorSpecific { code: 301, description: String::new() });
        i += 1;
    }
    clock::set(100);
    let r = q.check(&s);
    assert!(matches!(r, Err(PutError::Concurrency(ConcurrencyError::CasFailed))), "C05.O4 256 error replies counted without wrapping");
    kani::cover!(true);
    std::mem::forget(r);
    std::mem::forget(q);
    std::mem::forget(s);
}

//@ ob: C05.O4b
//@ rss: 0.5
//@ time: 15
//@ tier: quick
//@ cap: 800
//@ standins: tracing
//@ also: C08
//@ desc: the majority threshold does not wrap at 256: with 510 targets (255 closest + 255 extra), a single 301 reply does not fail a put_mutable early (threshold is 256, not 256 as u8 = 0)
//@ bounds: concrete 510 tracked requests (one live), one 301 reply; unwind 6
//@ stubs: std::time::Instant::now -> symbolic clock; InflightRequests::update_rtt_estimates -> no-op
//@ functions: PutQuery::{error,check,majority_nodes_rejected_put_mutable}
#[kani::proof]
#[kani::stub(std::time::Instant::now, clock::now)]
#[kani::stub(crate::actor::socket::InflightRequests::update_rtt_estimates, rtt_stub)]
#[kani::unwind(6)]
fn c05_o4b_majority_threshold_510() {
    clock::set(0);
    let mut s = fake_socket(false);
    let tid = s.kani_add_inflight(SocketAddrV4::new([10, 0, 0, 1].into(), 1));
    let mut q = PutQuery::new(request_of(3), None);
    q.inflight_requests = vec![tid; 510];
    q.error(ErrorSpecific { code: 301, description: String::new() });
    let r = q.check(&s);
    assert!(matches!(r, Ok(false)), "C08.O2 early CasFailed needs a majority of 301 replies");
    kani::cover!(true);
    std::mem::forget(r);
    std::mem::forget(q);
    std::mem::forget(s);
}

fn count_of(q: &PutQuery, code: i32) -> usize {
    let mut i = 0;
    let mut n = 0;
    while i < 4 {
        if i < q.errors.len() && q.errors[i].1.code == code {
            n += q.errors[i].0;
        }
        i += 1;
    }
    n
}

fn tally_step(pre: usize) {
    let mut q = PutQuery::new(request_of(3), None);
    let codes: [i32; 3] = [kani::any(), kani::any(), kani::any()];
    let counts: [usize; 3] = [kani::any(), kani::any(), kani::any()];
    kani::assume(codes[0] != codes[1] && codes[0] != codes[2] && codes[1] != codes[2]);
    kani::assume(counts[0] >= counts[1] && counts[1] >= counts[2] && counts[2] >= 1 && counts[0] < 1000);
    let mut i = 0;
    while i < 3 {
        if i < pre {
            q.errors.push((counts[i], ErrorSpecific { code: codes[i], description: String::new() }));
        }
        i += 1;
    }
    let code: i32 = kani::any();
    let before = [count_of(&q, codes[0]), count_of(&q, codes[1]), count_of(&q, codes[2]), count_of(&q, code)];
    // replies with one code are one tally whatever free-text description each node attaches
    let other_text: bool = kani::any();
    q.error(ErrorSpecific { code, description: if other_text { String::from("x") } else { String::new() } });
    let n = q.errors.len();
    let known = (pre > 0 && code == codes[0]) || (pre > 1 && code == codes[1]) || (pre > 2 && code == codes[2]);
    assert!(n == if known { pre } else { pre + 1 }, "C08.O1e one tally entry per distinct error code");
    assert!(count_of(&q, code) == before[3] + 1, "C08.O1e the reply's code is counted once");
    let mut i = 0;
    while i < 3 {
        if i < pre && codes[i] != code {
            assert!(count_of(&q, codes[i]) == before[i], "C08.O1e other codes' tallies unchanged");
        }
        i += 1;
    }
    // order invariant: highest count first (most_common_error reads the head)
    let mut i = 1;
    while i < 4 {
        if i < n {
            assert!(q.errors[i - 1].0 >= q.errors[i].0, "C08.O1e tallies stay ordered by count, highest first");
        }
        i += 1;
    }
    kani::cover!(known && pre > 1 && q.errors[0].1.code == code && code != codes[0]);
    kani::cover!(!known);
    kani::cover!(pre < 2 || (known && code == codes[1] && q.errors[1].1.code == code));
    std::mem::forget(q);
}

//@ ob: C08.O1e
//@ tier: quick
//@ cap: 800
//@ standins: tracing
//@ also: C05 C17
//@ desc: error tally step (inductive): from any tally of 2 distinct error codes ordered by count, one more error reply with any i32 code (and the same or another free-text description) leaves one entry per code, counts exactly that reply, keeps the other counts, keeps the order highest-count-first (most_common_error reads the head) and never panics -- including a later-seen code overtaking the head
//@ bounds: 2 pre-existing tallies with symbolic distinct i32 codes and symbolic counts (ordered, < 1000); 1 symbolic reply; unwind 6
//@ inv: errors has one entry per code, ordered by count descending
//@ stubs: none
//@ functions: PutQuery::error
#[kani::proof]
#[kani::unwind(6)]
fn c08_o1e_error_tally_step() {
    tally_step(2);
}

//@ ob: C08.O1f
//@ tier: quick
//@ cap: 800
//@ rss: 2.0
//@ time: 72
//@ standins: tracing
//@ also: C05 C17
//@ desc: error tally step from a tally of 3 distinct codes (the new reply's entry may bubble past two entries)
//@ bounds: 3 pre-existing tallies, as C08.O1e; unwind 7
//@ inv: as C08.O1e
//@ stubs: none
//@ functions: PutQuery::error
#[kani::proof]
#[kani::unwind(7)]
fn c08_o1f_error_tally_step3() {
    tally_step(3);
}


impl PutQuery {
    /// composite harnesses (handle_response): a put with one request in flight under `tid`
    pub(crate) fn kani_track(&mut self, tid: u32) {
        self.inflight_requests.push(tid);
    }
    pub(crate) fn kani_acks(&self) -> usize {
        self.stored_at
    }
    /// (number of distinct error codes tallied, count of the first entry, code of the first entry)
    pub(crate) fn kani_errors(&self) -> (usize, usize, i32) {
        match self.errors.first() {
            Some((n, e)) => (self.errors.len(), *n, e.code),
            None => (0, 0, 0),
        }
    }
}

//! C07 — iterative lookup bookkeeping: candidates, visited set, completion.
//! Private names used: `IterativeQuery { request, closest, responders, inflight_requests, visited,
//! responses, public_address_votes }`.
//! Stand-ins: `tracing`, `vcoll` (HashSet/HashMap).
//! @needs: socket closest_nodes
use super::*;
#[allow(unused_imports)]
use crate::verif_env::k as kani;
use crate::actor::socket::kani_h::{fake_socket, rtt_stub, send_stub, srt_stub, SENT_N, SENT_TO};
use crate::common::kani_h_closest_nodes::closest_from;
use crate::verif_env::{clock, rnd};

const ME: [u8; 20] = [1u8; 20];

fn cand(i: u8) -> Node {
    // ids 0x01.., 0x02.. : increasing XOR distance to the all-zero target; private IPs => secure
    let mut a = [0u8; 20];
    a[0] = i + 1;
    Node::new(Id::from(a), SocketAddrV4::new([10, 1, i, 1].into(), 6881))
}

fn query_with(n: u8) -> IterativeQuery {
    let target = Id::from([0u8; 20]);
    let mut q = IterativeQuery::new(Id::from(ME), target, GetRequestSpecific::FindNode(FindNodeRequestArguments { target }));
    let mut v = Vec::with_capacity(n as usize);
    let mut i = 0u8;
    while i < n {
        v.push(cand(i));
        i += 1;
    }
    q.closest = closest_from(target, v);
    q
}

//@ ob: C07.O1
//@ tier: off
//@ cap: 3000
//@ standins: tracing vcoll
//@ desc: closest_candidates() is exactly the not-yet-visited addresses among the first min(20, len) entries of the candidate list, in that order: with 22 ordered candidates and a symbolic visited subset of {0, 10, 19, 20, 21}, candidates 20 and 21 are never proposed, visited ones are never proposed again, every other one of the first 20 is
//@ bounds: 22 concrete candidates; 5 symbolic visited bits; unwind 24
//@ stubs: Instant::now -> symbolic clock
//@ functions: IterativeQuery::closest_candidates, ClosestNodes::nodes
#[kani::proof]
#[kani::stub(std::time::Instant::now, clock::now)]
#[kani::unwind(24)]
fn c07_o1_closest_candidates() {
    clock::set(0);
    let mut q = query_with(22);
    let bits: [bool; 5] = [kani::any(), kani::any(), kani::any(), kani::any(), kani::any()];
    let idx = [0u8, 10, 19, 20, 21];
    let mut k = 0;
    while k < 5 {
        if bits[k] {
            q.visited.insert(cand(idx[k]).address());
        }
        k += 1;
    }
    let c = q.closest_candidates();
    let expected_len = 20 - (bits[0] as usize) - (bits[1] as usize) - (bits[2] as usize);
    assert!(c.len() == expected_len, "C07.O1 candidates are the unvisited among the 20 closest");
    // order and membership: walk the first 20 in order
    let mut pos = 0usize;
    let mut i = 0u8;
    while i < 20 {
        let visited = (i == 0 && bits[0]) || (i == 10 && bits[1]) || (i == 19 && bits[2]);
        if !visited {
            assert!(pos < c.len() && c[pos] == cand(i).address(), "C07.O1 candidates keep the closest-first order");
            pos += 1;
        }
        i += 1;
    }
    kani::cover!(expected_len == 17);
    kani::cover!(expected_len == 20 && bits[3]);
    std::mem::forget(c);
    std::mem::forget(q);
}

//@ ob: C07.O2
//@ tier: off
//@ cap: 2400
//@ standins: tracing vcoll
//@ desc: visit_closest() sends exactly one request to each unvisited candidate among the closest, marks it visited and tracks its transaction id; afterwards closest_candidates() is empty and a second visit_closest() sends nothing (an address is never queried twice by one lookup), even if the same node is offered again as a candidate
//@ bounds: 3 candidates, the middle one symbolically already visited; unwind 8
//@ stubs: KrpcSocket::send -> ghost log; UdpSocket::set_read_timeout -> Ok; Instant::now
//@ functions: IterativeQuery::{visit_closest,visit,closest_candidates,add_candidate,inflight}, KrpcSocket::request
#[kani::proof]
#[kani::stub(std::time::Instant::now, clock::now)]
#[kani::stub(crate::actor::socket::KrpcSocket::send, send_stub)]
#[kani::stub(std::net::UdpSocket::set_read_timeout, srt_stub)]
#[kani::unwind(8)]
fn c07_o2_visit_closest_once() {
    clock::set(0);
    let mut s = fake_socket(false);
    let mut q = query_with(3);
    let pre: bool = kani::any();
    if pre {
        q.visited.insert(cand(1).address());
    }
    q.visit_closest(&mut s);
    let sent = unsafe { SENT_N.v };
    assert!(sent == if pre { 2 } else { 3 }, "C07.O2 one request per unvisited close candidate");
    assert!(unsafe { SENT_TO.v[0] } == Some(cand(0).address()), "C07.O2 requests go to the candidates closest first");
    assert!(unsafe { SENT_TO.v[sent - 1] } == Some(cand(2).address()), "C07.O2 requests go to the candidates closest first");
    assert!(q.inflight_requests.len() == sent, "C07.O2 every request is tracked");
    assert!(q.closest_candidates().is_empty(), "C07.O2 nothing left to visit");
    q.add_candidate(cand(1));
    q.visit_closest(&mut s);
    assert!(unsafe { SENT_N.v } == sent, "C07.O2 an address is never queried twice by the same lookup");
    kani::cover!(pre);
    kani::cover!(!pre);
    std::mem::forget(q);
    std::mem::forget(s);
}

//@ ob: C07.O3
//@ rss: 0.6
//@ time: 41
//@ tier: quick
//@ cap: 800
//@ standins: tracing vcoll
//@ also: C06
//@ desc: completion: is_done() is true exactly when none of the lookup's requests is still unexpired and unanswered (so a lookup is only declared done after every contacted node answered or timed out); a lookup with no requests is done
//@ bounds: 2 requests; each symbolically answered (modelled as sent 100 s earlier, i.e. no longer in flight); clock advanced by a symbolic whole number of seconds; unwind 8
//@ stubs: KrpcSocket::send -> ghost log; set_read_timeout -> Ok; update_rtt_estimates -> no-op; Instant::now
//@ functions: IterativeQuery::{visit,is_done}, KrpcSocket::inflight, InflightRequests::get
#[kani::proof]
#[kani::stub(std::time::Instant::now, clock::now)]
#[kani::stub(crate::actor::socket::KrpcSocket::send, send_stub)]
#[kani::stub(std::net::UdpSocket::set_read_timeout, srt_stub)]
#[kani::stub(crate::actor::socket::InflightRequests::update_rtt_estimates, rtt_stub)]
#[kani::unwind(8)]
fn c07_o3_done_iff_nothing_pending() {
    clock::set(0);
    let mut s = fake_socket(false);
    let mut q = query_with(0);
    assert!(q.is_done(&s), "C07.O3 a lookup with no requests is done");
    let a0: bool = kani::any();
    let a1: bool = kani::any();
    // An answered request is no longer in flight at the socket.  Removing table entries makes
    // later indices symbolic (out of memory in CBMC); the same observable is obtained by sending
    // the answered requests 100 s before the unanswered ones (answered first keeps the table
    // sorted by sent_at): at t = 100 exactly the answered ones are no longer in flight.
    let first = if a0 || !a1 { 0u8 } else { 1u8 };
    let (af, asnd) = if first == 0 { (a0, a1) } else { (a1, a0) };
    clock::set(if af { 0 } else { 100 });
    q.visit(&mut s, cand(first).address());
    clock::set(if asnd { 0 } else { 100 });
    q.visit(&mut s, cand(1 - first).address());
    let dt: u64 = kani::any();
    kani::assume(dt < 1000);
    clock::set(100 + dt);
    let expired = dt >= 1;
    let done = q.is_done(&s);
    assert!(done == ((a0 || expired) && (a1 || expired)), "C07.O3 done iff every request was answered or timed out");
    kani::cover!(done && !expired);
    kani::cover!(!done && a0);
    kani::cover!(done && expired && !a0);
    std::mem::forget(q);
    std::mem::forget(s);
}

impl IterativeQuery {
    /// mark `tid` as one of this lookup's outstanding requests (what `visit` does after sending)
    /// composite harnesses: an earlier response already recorded in the lookup
    pub(crate) fn kani_push_response(&mut self, r: Response) {
        self.responses.push(r);
    }
    pub(crate) fn kani_track(&mut self, tid: u32) {
        self.inflight_requests.push(tid);
    }
    pub(crate) fn kani_responder_has_token(&self) -> bool {
        self.responders.nodes().iter().any(|n| n.token().is_some())
    }
    pub(crate) fn kani_responders_len(&self) -> usize {
        self.responders.len()
    }
    pub(crate) fn kani_votes(&self) -> usize {
        self.public_address_votes.len()
    }
    /// mark an address as already queried (what `visit` does after sending)
    pub(crate) fn kani_mark_visited(&mut self, a: SocketAddrV4) {
        self.visited.insert(a);
    }
}

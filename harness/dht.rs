//! C16 — `Dht::get_mutable_most_recent` (sync): the fold between a channel send and a channel
//! iterator.  The harness plays the actor: it takes the `Sender<MutableItem>` out of the
//! `ActorMessage::Get`, pushes n items and drops it; the real get_mutable, iterator and fold run.
//! Stand-ins: `flume` (single-threaded FIFO).  In native replay a real thread plays the actor
//! over the real `flume`.
use super::*;
#[allow(unused_imports)]
use crate::verif_env::k as kani;

static mut SEQS: crate::verif_env::Ghost<[i64; 3]> = crate::verif_env::ghost(5, [0; 3]);
static mut VALS: crate::verif_env::Ghost<[u8; 3]> = crate::verif_env::ghost(6, [0; 3]);
static mut N: crate::verif_env::Ghost<usize> = crate::verif_env::ghost(7, 0);

fn serve(message: ActorMessage) {
    if let ActorMessage::Get(_, ResponseSender::Mutable(tx)) = message {
        let n = unsafe { N.v };
        let mut i = 0;
        while i < 3 {
            if i < n {
                let (seq, val) = unsafe { (SEQS.v[i], VALS.v[i]) };
                let item = MutableItem::new_signed_unchecked([0; 32], [0; 64], &[val], seq, None);
                let _ = tx.send(item);
            }
            i += 1;
        }
        drop(tx);
    }
}
fn send_stub(_d: &Dht, message: ActorMessage) {
    serve(message)
}
fn tfk_stub(_k: &[u8; 32], _s: Option<&[u8]>) -> crate::Id {
    crate::Id::from([3u8; 20])
}

fn scenario(n: usize) {
    // scalar draws (one trace assignment each: Kani's playback extraction skips whole-array draws)
    let seqs: [i64; 3] = [kani::any(), kani::any(), kani::any()];
    let vals: [u8; 3] = [kani::any(), kani::any(), kani::any()];
    unsafe {
        N.v = n;
        SEQS.v = seqs;
        VALS.v = vals;
    }
    let (tx, rx) = flume::unbounded::<ActorMessage>();
    #[cfg(verif_replay)]
    let actor = {
        let rx = rx.clone();
        std::thread::spawn(move || {
            if let Ok(m) = rx.recv() {
                serve(m)
            }
        })
    };
    let dht = Dht(tx);
    let r = dht.get_mutable_most_recent(&[0; 32], None);
    #[cfg(verif_replay)]
    let _ = actor.join();
    if n == 0 {
        assert!(r.is_none(), "C16 None only if nothing was delivered");
    } else {
        // reference: maximum seq; among those the greatest value
        let mut best = 0usize;
        let mut i = 1;
        while i < 3 {
            if i < n && (seqs[i] > seqs[best] || (seqs[i] == seqs[best] && vals[i] > vals[best])) {
                best = i;
            }
            i += 1;
        }
        match &r {
            Some(item) => {
                assert!(item.seq() == seqs[best], "C16 most recent item has the maximum seq delivered");
                assert!(item.value() == &[vals[best]], "C16 ties on seq broken by greatest value");
            }
            None => assert!(false, "C16 an item was delivered so one is returned"),
        }
        // (for n = 1 the order witnesses are inapplicable: trivially true there)
        kani::cover!(n < 2 || (best == n - 1 && seqs[n - 1] > seqs[0]));
        kani::cover!(n < 2 || (best == 0 && seqs[0] > seqs[n - 1]));
        kani::cover!(n < 2 || (seqs[0] == seqs[n - 1] && vals[0] != vals[n - 1]));
    }
    std::mem::forget(r);
    std::mem::forget(dht);
    std::mem::forget(rx);
}

//@ ob: C16.O1a
//@ tier: quick
//@ cap: 800
//@ rss: 2.7
//@ time: 90
//@ standins: tracing lru vcoll flume
//@ desc: get_mutable_most_recent returns None iff the lookup delivered nothing (n = 0) and the single item for n = 1
//@ bounds: n in {0, 1} delivered items with symbolic (seq: full i64, 1-byte value); unwind 9
//@ stubs: Dht::send -> harness-side actor double delivering the items then dropping the sender; MutableItem::target_from_key -> fixed id (SHA-1 not the subject)
//@ functions: Dht::get_mutable_most_recent, Dht::get_mutable, GetIterator::next, flume stand-in
#[kani::proof]
#[kani::stub(crate::dht::Dht::send, send_stub)]
#[kani::stub(crate::common::mutable::MutableItem::target_from_key, tfk_stub)]
#[kani::unwind(9)]
fn c16_o1a_most_recent_n01() {
    let n: usize = if kani::any() { 0 } else { 1 };
    scenario(n);
    kani::cover!(n == 0);
    kani::cover!(n == 1);
}

//@ ob: C16.O1b
//@ tier: quick
//@ cap: 800
//@ rss: 2.4
//@ time: 107
//@ standins: tracing lru vcoll flume
//@ desc: two delivered items in either order (symbolic seqs and values): the result has the maximum seq, ties broken by the greatest value
//@ bounds: n = 2; seq full i64, values 1 byte; all orders are covered by the items being symbolic; unwind 9
//@ stubs: as C16.O1a
//@ functions: Dht::get_mutable_most_recent
#[kani::proof]
#[kani::stub(crate::dht::Dht::send, send_stub)]
#[kani::stub(crate::common::mutable::MutableItem::target_from_key, tfk_stub)]
#[kani::unwind(9)]
fn c16_o1b_most_recent_n2() {
    scenario(2);
}

//@ ob: C16.O1c
//@ tier: quick
//@ cap: 800
//@ rss: 3.0
//@ time: 127
//@ standins: tracing lru vcoll flume
//@ desc: three delivered items: maximum seq, ties by greatest value
//@ bounds: n = 3; unwind 9
//@ stubs: as C16.O1a
//@ functions: Dht::get_mutable_most_recent
#[kani::proof]
#[kani::stub(crate::dht::Dht::send, send_stub)]
#[kani::stub(crate::common::mutable::MutableItem::target_from_key, tfk_stub)]
#[kani::unwind(9)]
fn c16_o1c_most_recent_n3() {
    scenario(3);
}

//! C12 (routing-table invariants), C14.O1 (refresh on contact), C11.O3 (closest()).
//! Private names used: `RoutingTable { id, buckets, .. }`, `KBucket { nodes }`.
//! Stand-ins: `vcoll::BTreeMap` (RoutingTable.buckets), `vcoll::HashSet` (via ClosestNodes).
//! @needs: closest_nodes
use super::*;
#[allow(unused_imports)]
use crate::verif_env::k as kani;
use crate::common::kani_h_closest_nodes::in_order;
use crate::verif_env::clock;
use std::net::SocketAddrV4;

/// id in distance class 160 from the all-zero table id: [0x80, b1, 0.., r]
fn node_160(b1: u8, r: u8, ip: [u8; 4]) -> Node {
    let mut a = [0u8; 20];
    a[0] = 0x80;
    a[1] = b1;
    a[19] = r;
    Node::new(Id::from(a), SocketAddrV4::new(ip.into(), 6881))
}
fn any_private_node_160() -> Node {
    node_160(kani::any(), 0, [10, 0, 0, kani::any()])
}
/// public IP from a 2-element set, symbolic id bytes incl. the BEP42 prefix region: secure and
/// insecure nodes both occur
fn any_public_node_160() -> Node {
    let mut a = [0u8; 20];
    a[0] = 0x80 | kani::any::<u8>();
    a[1] = kani::any();
    a[2] = kani::any();
    a[19] = kani::any();
    let ip = if kani::any() { [8, 8, 8, 8] } else { [1, 2, 3, 4] };
    Node::new(Id::from(a), SocketAddrV4::new(ip.into(), 6881))
}

/// same entry (the very same Arc): cheap identity instead of a deep field-by-field compare
fn same(a: &Node, b: &Node) -> bool {
    std::sync::Arc::ptr_eq(&a.0, &b.0)
}

fn pair_ok(a: &Node, b: &Node) -> bool {
    // ids distinct; per IP at most one insecure node and no two secure nodes with one 21-bit prefix
    a.id() != b.id() && !a.already_exists(std::slice::from_ref(b)) && !b.already_exists(std::slice::from_ref(a))
}

//@ ob: C12.O1
//@ also: C14
//@ rss: 0.9
//@ time: 27
//@ tier: quick
//@ cap: 800
//@ standins: vcoll
//@ desc: KBucket::add into a built bucket of 2 nodes with distinct ids: ids stay pairwise distinct, length grows by at most one, a new id is appended at the tail, a known id is refreshed (moved to the tail with the new address) iff the incoming node is secure or both are insecure with the same IP, otherwise refused
//@ bounds: bucket of 2 + 1 incoming, ids [0x80,b1,..] with symbolic b1, private IPs 10.0.0.x (symbolic x); unwind 21
//@ inv: ids in a bucket pairwise distinct
//@ stubs: std::time::Instant::now -> symbolic whole-second clock
//@ functions: KBucket::add, Node::is_secure, Node::same_ip
#[kani::proof]
#[kani::stub(std::time::Instant::now, clock::now)]
#[kani::unwind(21)]
fn c12_o1_kbucket_add_step() {
    clock::set(0);
    let n1 = any_private_node_160();
    let n2 = any_private_node_160();
    kani::assume(n1.id() != n2.id());
    let mut b = KBucket { nodes: vec![n1.clone(), n2.clone()] };
    clock::set(5);
    let inc = any_private_node_160();
    let known = inc.id() == n1.id() || inc.id() == n2.id();
    let r = b.add(inc.clone());
    let s = b.nodes.as_slice();
    assert!(s.len() == 2 || s.len() == 3, "C12.O1 bucket grows by at most one");
    assert!(s[0].id() != s[1].id(), "C12.O1 ids in a bucket are distinct");
    if s.len() == 3 {
        assert!(s[0].id() != s[2].id() && s[1].id() != s[2].id(), "C12.O1 ids in a bucket are distinct");
        assert!(!known && r, "C12.O1 a known id never adds an entry");
        assert!(same(&s[2], &inc), "C12.O1 new node appended at the tail");
    } else {
        assert!(known, "C12.O1 a new id is added while the bucket has room");
        // private addresses are BEP42-exempt, so the incoming node is secure: a known id is refreshed
        assert!(r, "C14.O1 a known peer seen again from a BEP42-secure address is refreshed");
        assert!(same(&s[1], &inc), "C12.O1 refreshed node moves to the tail");
    }
    kani::cover!(r && s.len() == 3);
    kani::cover!(r && s.len() == 2);
    std::mem::forget(b);
}

//@ ob: C12.O1b
//@ rss: 0.6
//@ time: 22
//@ tier: quick
//@ cap: 800
//@ standins: vcoll
//@ desc: KBucket::add update rule with public IPs (secure and insecure ids): a known id is replaced iff incoming is BEP42-secure or (existing insecure and same IP); never two entries with one id
//@ bounds: bucket of 1 + 1 incoming with the same id bytes, IPs from {8.8.8.8, 1.2.3.4}, symbolic BEP42 prefix and r; unwind 21
//@ stubs: std::time::Instant::now -> symbolic whole-second clock
//@ functions: KBucket::add, Node::is_secure, Id::is_valid_for_ip
#[kani::proof]
#[kani::stub(std::time::Instant::now, clock::now)]
#[kani::unwind(21)]
fn c12_o1b_kbucket_update_rule() {
    clock::set(0);
    let existing = any_public_node_160();
    let ip = if kani::any() { [8, 8, 8, 8] } else { [1, 2, 3, 4] };
    let port: u16 = kani::any();
    let inc = Node::new(*existing.id(), SocketAddrV4::new(ip.into(), port));
    let mut b = KBucket { nodes: vec![existing.clone()] };
    let r = b.add(inc.clone());
    let expect = inc.is_secure() || (!existing.is_secure() && existing.same_ip(&inc));
    assert!(b.nodes.len() == 1, "C12.O1 a known id never adds an entry");
    assert!(r == expect, "C12.O1b replace iff incoming secure or both insecure with the same IP");
    if r {
        assert!(same(&b.nodes[0], &inc), "C12.O1b replaced by the incoming node");
    } else {
        assert!(same(&b.nodes[0], &existing), "C12.O1b refused update leaves the entry unchanged");
    }
    kani::cover!(r && !existing.same_ip(&inc));
    kani::cover!(!r);
    kani::cover!(r && !inc.is_secure());
    std::mem::forget(b);
}

//@ ob: C12.O2
//@ rss: 9.3
//@ time: 233
//@ tier: quick
//@ cap: 800
//@ standins: vcoll
//@ desc: full bucket: 20 nodes created at symbolic non-decreasing instants plus a symbolic 'now': the newcomer is admitted iff the head (least recently seen) is older than 900 s; on eviction exactly the head goes and the newcomer is last; otherwise the bucket is unchanged
//@ bounds: 20 concrete-id nodes, 21 symbolic time steps each <= 2000 s; unwind 22
//@ stubs: std::time::Instant::now -> symbolic whole-second clock
//@ functions: KBucket::add, Node::is_stale
#[kani::proof]
#[kani::stub(std::time::Instant::now, clock::now)]
#[kani::unwind(22)]
fn c12_o2_full_bucket_stale_head_only() {
    let mut nodes = Vec::with_capacity(20);
    let mut t: u64 = 0;
    let mut first_seen: u64 = 0;
    let mut i = 0u8;
    while i < 20 {
        let dt: u64 = kani::any();
        kani::assume(dt <= 2000);
        t += dt;
        clock::set(t);
        if i == 0 {
            first_seen = t;
        }
        nodes.push(node_160(i + 1, 0, [10, 0, 1, i]));
        i += 1;
    }
    let dt: u64 = kani::any();
    kani::assume(dt <= 2000);
    let now = t + dt;
    clock::set(now);
    let mut b = KBucket { nodes };
    let r = b.add(node_160(99, 0, [10, 0, 2, 1]));
    let head_age = now - first_seen;
    assert!(b.nodes.len() == 20, "C12.O2 bucket never exceeds 20");
    assert!(r == (head_age > 900), "C12.O2 full bucket admits iff head is stale (> 15 min)");
    if !r {
        assert!(b.nodes[0].id().as_bytes()[1] == 1 && b.nodes[19].id().as_bytes()[1] == 20, "C12.O2 fresh bucket unchanged");
    } else {
        assert!(b.nodes[0].id().as_bytes()[1] == 2, "C12.O2 only the head is evicted");
        assert!(b.nodes[19].id().as_bytes()[1] == 99, "C12.O2 newcomer appended");
    }
    kani::cover!(r);
    kani::cover!(!r);
    kani::cover!(head_age == 900);
    std::mem::forget(b);
}

/// table with the given id whose bucket 160 holds `ns` (callers pass ids at distance 160)
pub(crate) fn table_with(id: Id, ns: Vec<Node>) -> RoutingTable {
    let mut rt = RoutingTable::new(id);
    rt.buckets.insert(160, KBucket { nodes: ns });
    rt
}

/// as `table_with`, plus an emptied bucket at a nearer distance (what `remove` leaves behind when
/// the only node of a bucket goes: the bucket stays in the map, empty)
pub(crate) fn table_with_emptied_bucket(id: Id, ns: Vec<Node>) -> RoutingTable {
    let mut rt = RoutingTable::new(id);
    rt.buckets.insert(150, KBucket { nodes: Vec::with_capacity(1) });
    rt.buckets.insert(160, KBucket { nodes: ns });
    rt
}

fn direct_table(ns: Vec<Node>) -> RoutingTable {
    let mut rt = RoutingTable::new(Id::from([0u8; 20]));
    rt.buckets.insert(160, KBucket { nodes: ns });
    rt
}

//@ ob: C12.O3
//@ tier: off
//@ cap: 3000
//@ standins: vcoll
//@ desc: RoutingTable::add into a built one-bucket table of 2 entries satisfying Inv: afterwards no entry has the table's id, ids are pairwise distinct, the per-IP rule holds pairwise, size() = number of entries, is_empty() agrees, nodes() yields exactly the entries, every entry sits in the bucket of its distance; a fresh acceptable node is added
//@ bounds: table id all-zero, entries in distance class 160 with ids [0x80|b0,b1,b2,..,r] and IPs from {8.8.8.8, 1.2.3.4} (secure and insecure mixes); 2 entries + 1 incoming (incoming may be the table's own id class or any distance class 153..160); unwind 21; RoutingTableIterator::next 163
//@ inv: no self id; ids pairwise distinct; entry in bucket distance(self,id); per IP <= 1 insecure entry and no two secure entries with equal 21-bit prefix
//@ stubs: std::time::Instant::now -> symbolic whole-second clock; Node::is_secure -> uninterpreted predicate of (id[19] & 3, ip[0] & 1), 8 pre-drawn bits, private addresses exempt as in the real code (BEP42 validity itself: C19.O3/O4 and C11.O1 with the real CRC32C)
//@ functions: RoutingTable::{add,size,is_empty,nodes}, KBucket::add, Node::already_exists, Id::distance
//@ unwindset: RoutingTableIterator = 163
#[kani::proof]
#[kani::stub(std::time::Instant::now, clock::now)]
#[kani::stub(crate::common::node::Node::is_secure, crate::verif_env::ufs::is_secure)]
#[kani::unwind(21)]
fn c12_o3_table_add_step() {
    crate::verif_env::ufs::arm(kani::any());
    clock::set(0);
    let n1 = any_public_node_160();
    let n2 = any_public_node_160();
    kani::assume(pair_ok(&n1, &n2));
    let mut rt = direct_table(vec![n1.clone(), n2.clone()]);
    // incoming: any leading byte (distance class 153..160, or 0 = the table itself when all zero)
    let mut a = [0u8; 20];
    a[0] = kani::any();
    a[1] = kani::any();
    a[2] = kani::any();
    a[19] = kani::any();
    let ip = if kani::any() { [8, 8, 8, 8] } else { [1, 2, 3, 4] };
    let inc = Node::new(Id::from(a), SocketAddrV4::new(ip.into(), 6881));
    let d = rt.id().distance(inc.id());
    let acceptable = d != 0 && !inc.already_exists(&[n1.clone(), n2.clone()]) && inc.id() != n1.id() && inc.id() != n2.id();
    let r = rt.add(inc.clone());
    // collect entries (at most 3) through the public iterator
    let mut it = rt.nodes();
    let e0 = it.next();
    let e1 = it.next();
    let e2 = it.next();
    let e3 = it.next();
    assert!(e3.is_none(), "C12.O3 at most one entry added");
    let n = e0.is_some() as usize + e1.is_some() as usize + e2.is_some() as usize;
    assert!(rt.size() == n, "C12.O3 size agrees with iteration");
    assert!(rt.is_empty() == (n == 0), "C12.O3 is_empty agrees with size");
    assert!(n == 2 || n == 3, "C12.O3 add never removes entries here");
    let es = [e0, e1, e2];
    let mut i = 0;
    while i < 3 {
        if let Some(x) = &es[i] {
            assert!(x.id() != rt.id(), "C12.O3 table never contains its own id");
            let dx = rt.id().distance(x.id());
            let in_bucket = match rt.buckets.get(&dx) {
                Some(b) => b.nodes.iter().any(|y| same(y, x)),
                None => false,
            };
            assert!(in_bucket, "C12.O3 entry sits in the bucket of its distance");
            let mut j = i + 1;
            while j < 3 {
                if let Some(y) = &es[j] {
                    assert!(pair_ok(x, y), "C12.O3 ids distinct and per-IP Sybil limit holds");
                }
                j += 1;
            }
        }
        i += 1;
    }
    if acceptable {
        assert!(r && n == 3, "C12.O3 a fresh acceptable node is added");
    }
    if r && n == 3 {
        assert!(d != 0, "C12.O3 table never contains its own id");
    }
    kani::cover!(r && n == 3 && d == 160);
    kani::cover!(r && n == 3 && d < 160);
    kani::cover!(!r && d == 0);
    kani::cover!(!r && d != 0);
    std::mem::forget(es);
    std::mem::forget(rt);
    assert!(!crate::verif_env::cut_reached(), "CUT: more distinct (ip, r) pairs than P has slots");
}

// ---- C12.O3g: what RoutingTable::add adds on top of KBucket::add ----
static mut KB_CALLS: crate::verif_env::Ghost<usize> = crate::verif_env::ghost(103, 0);
static mut KB_ID: crate::verif_env::Ghost<[u8; 4]> = crate::verif_env::ghost(104, [0; 4]);
static mut KB_BUCKET: crate::verif_env::Ghost<usize> = crate::verif_env::ghost(105, 0);
static mut KB_RET: crate::verif_env::Ghost<bool> = crate::verif_env::ghost(106, false);
/// `KBucket::add` as a probe: which node was offered to which bucket; the verdict is a pre-drawn
/// bit.  The bucket's own rules are the leaf obligations C12.O1 / O1b / O2.
fn kbucket_add_probe(b: &mut KBucket, n: Node) -> bool {
    unsafe {
        KB_CALLS.v += 1;
        let id = n.id().as_bytes();
        KB_ID.v = [id[0], id[1], id[2], id[19]];
        KB_BUCKET.v = b as *mut KBucket as usize;
        std::mem::forget(n);
        KB_RET.v
    }
}

//@ ob: C12.O3g
//@ tier: off
//@ cap: 2400
//@ standins: vcoll
//@ also: C14
//@ desc: what RoutingTable::add does before it hands a node to its bucket: the table's own id is never offered to a bucket; a node that conflicts with an entry of ANOTHER id under the per-IP rule (same IP and that entry is insecure, or shares the 21-bit prefix) is refused without touching any bucket -- also when the incoming id is already known (a known id re-appearing from another IP does not bypass the Sybil rule); an entry with the SAME id is not a conflict (refresh on contact, C14.O1); otherwise the node is offered exactly once, unchanged, to the bucket stored under its distance to the table id, and add returns that bucket's verdict
//@ bounds: table id all-zero; 2 entries in distance class 160 with ids [0x80|b0,b1,b2,..,r] and IPs from {8.8.8.8, 1.2.3.4} satisfying Inv; incoming id bytes 0,1,2,19 symbolic (any distance class 153..160, or the table's own id), IP from the same set; bucket verdict symbolic; unwind 21
//@ inv: ids pairwise distinct; per IP <= 1 insecure entry and no two secure entries with equal 21-bit prefix
//@ stubs: KBucket::add -> probe recording (node, bucket) with a pre-drawn verdict (bucket rules: C12.O1/O1b/O2); Node::is_secure -> uninterpreted predicate (see C12.O3); std::time::Instant::now -> symbolic clock
//@ functions: RoutingTable::add (self check, table-wide per-IP scan, bucket selection), Node::already_exists, Id::distance
#[kani::proof]
#[kani::stub(std::time::Instant::now, clock::now)]
#[kani::stub(crate::common::node::Node::is_secure, crate::verif_env::ufs::is_secure)]
#[kani::stub(KBucket::add, kbucket_add_probe)]
#[kani::unwind(21)]
fn c12_o3g_table_add_glue() {
    crate::verif_env::ufs::arm(kani::any());
    clock::set(0);
    let n1 = any_public_node_160();
    let n2 = any_public_node_160();
    kani::assume(pair_ok(&n1, &n2));
    let mut rt = direct_table(vec![n1.clone(), n2.clone()]);
    let mut a = [0u8; 20];
    a[0] = kani::any();
    a[1] = kani::any();
    a[2] = kani::any();
    a[19] = kani::any();
    let ip = if kani::any() { [8, 8, 8, 8] } else { [1, 2, 3, 4] };
    let inc = Node::new(Id::from(a), SocketAddrV4::new(ip.into(), 6881));
    let verdict: bool = kani::any();
    unsafe { KB_RET.v = verdict };
    let d = rt.id().distance(inc.id());
    let conflict1 = inc.id() != n1.id() && inc.already_exists(std::slice::from_ref(&n1));
    let conflict2 = inc.id() != n2.id() && inc.already_exists(std::slice::from_ref(&n2));
    let known = inc.id() == n1.id() || inc.id() == n2.id();
    let r = rt.add(inc.clone());
    let calls = unsafe { KB_CALLS.v };
    if d == 0 {
        assert!(!r && calls == 0, "C12.O3 table never contains its own id");
    } else if conflict1 || conflict2 {
        assert!(!r && calls == 0, "C12.O3 a node that breaks the per-IP Sybil limit against another entry is refused before any bucket is touched");
    } else {
        assert!(calls == 1, "C12.O3 an acceptable node is offered to exactly one bucket");
        assert!(unsafe { KB_ID.v } == [a[0], a[1], a[2], a[19]], "C12.O3 the node offered to the bucket is the incoming node");
        let at = match rt.buckets.get(&d) {
            Some(b) => b as *const KBucket as usize,
            None => 0,
        };
        assert!(at != 0 && at == unsafe { KB_BUCKET.v }, "C12.O3 entry sits in the bucket of its distance");
        assert!(r == verdict, "C12.O3 add returns its bucket's verdict");
    }
    kani::cover!(d == 0);
    kani::cover!(d != 0 && known && (conflict1 || conflict2));
    kani::cover!(d != 0 && !known && (conflict1 || conflict2));
    kani::cover!(d != 0 && known && !conflict1 && !conflict2);
    kani::cover!(d != 0 && d < 160 && !conflict1 && !conflict2);
    std::mem::forget(rt);
}

//@ ob: C14.O1
//@ tier: off
//@ cap: 3000
//@ standins: vcoll
//@ also: C12
//@ desc: refresh on contact: the table holds X (added at t0); at t1 the call handle_response makes for an expected reply -- routing_table.add(Node::new(X.id, X.addr)) -- leaves exactly one entry for X whose last_seen is t1 (so a peer that keeps answering is never stale); with a second unrelated entry present too
//@ bounds: X with symbolic id bytes and IP from {8.8.8.8 (id may be secure or not), 10.0.0.7 (private)}; a second entry with a different IP; t0 <= t1 symbolic (<= 2^20 s); unwind 21
//@ stubs: std::time::Instant::now -> symbolic whole-second clock; Node::is_secure -> uninterpreted predicate of (id[19] & 3, ip[0] & 1), 8 pre-drawn bits, private addresses exempt as in the real code (BEP42 validity itself: C19.O3/O4 and C11.O1 with the real CRC32C)
//@ functions: RoutingTable::add, KBucket::add, Node::already_exists, Node::is_stale
#[kani::proof]
#[kani::stub(std::time::Instant::now, clock::now)]
#[kani::stub(crate::common::node::Node::is_secure, crate::verif_env::ufs::is_secure)]
#[kani::unwind(21)]
fn c14_o1_refresh_on_contact() {
    crate::verif_env::ufs::arm(kani::any());
    let t0: u64 = kani::any();
    let dt: u64 = kani::any();
    kani::assume(t0 < (1 << 20) && dt < (1 << 20));
    clock::set(t0);
    let mut a = [0u8; 20];
    a[0] = 0x80 | kani::any::<u8>();
    a[1] = kani::any();
    a[2] = kani::any();
    a[19] = kani::any();
    let ip = if kani::any() { [8, 8, 8, 8] } else { [10, 0, 0, 7] };
    let addr = SocketAddrV4::new(ip.into(), 6881);
    let x = Node::new(Id::from(a), addr);
    let other = node_160(0x55, 1, [10, 0, 0, 99]);
    kani::assume(other.id() != x.id());
    let mut rt = direct_table(vec![x.clone(), other.clone()]);
    clock::set(t0 + dt);
    let again = Node::new(Id::from(a), addr);
    let _ = rt.add(again);
    let b = rt.buckets.get(&160).unwrap();
    let mut count = 0;
    let mut fresh = false;
    let mut i = 0;
    while i < 3 {
        if i < b.nodes.len() && b.nodes[i].id() == x.id() {
            count += 1;
            fresh = b.nodes[i].0.last_seen == clock::now();
        }
        i += 1;
    }
    assert!(b.nodes.len() == 2, "C14.O1 re-adding a known peer keeps the table size");
    assert!(count == 1, "C14.O1 known peer present exactly once");
    assert!(fresh, "C14.O1 a reply refreshes the peer's last_seen");
    kani::cover!(dt > 900);
    kani::cover!(x.is_secure() && ip[0] == 8);
    kani::cover!(!x.is_secure());
    std::mem::forget(rt);
    assert!(!crate::verif_env::cut_reached(), "CUT: more distinct (ip, r) pairs than P has slots");
}

//@ ob: C12.O4
//@ tier: off
//@ cap: 3000
//@ standins: vcoll
//@ also: C20
//@ desc: remove(id) deletes exactly the entry with that id (nothing else, no effect for unknown ids); reset_id(new) re-buckets every entry: afterwards each entry sits in the bucket of its distance to the new id, ids are distinct, nothing with the new id remains, and the table's lookup statistics (sample counters and sums, which mirror the cached lookups) are untouched
//@ bounds: 2-entry table (private IPs, symbolic id byte 1), symbolic removal id byte, new id [b0,0..] symbolic first byte; unwind 21; RoutingTableIterator::next 163
//@ stubs: std::time::Instant::now -> symbolic whole-second clock; Node::is_secure -> uninterpreted predicate of (id[19] & 3, ip[0] & 1), 8 pre-drawn bits, private addresses exempt as in the real code (BEP42 validity itself: C19.O3/O4 and C11.O1 with the real CRC32C)
//@ functions: RoutingTable::{remove,reset_id,add,to_owned_nodes}, KBucket::remove
//@ unwindset: RoutingTableIterator = 163
#[kani::proof]
#[kani::stub(std::time::Instant::now, clock::now)]
#[kani::stub(crate::common::node::Node::is_secure, crate::verif_env::ufs::is_secure)]
#[kani::unwind(21)]
fn c12_o4_remove_and_rekey() {
    crate::verif_env::ufs::arm(kani::any());
    clock::set(0);
    let n1 = any_private_node_160();
    let n2 = any_private_node_160();
    kani::assume(pair_ok(&n1, &n2));
    let mut rt = direct_table(vec![n1.clone(), n2.clone()]);
    let do_remove: bool = kani::any();
    if do_remove {
        let victim = any_private_node_160();
        rt.remove(victim.id());
        let hit1 = victim.id() == n1.id();
        let hit2 = victim.id() == n2.id();
        assert!(rt.size() == 2 - (hit1 as usize) - (hit2 as usize), "C12.O4 remove deletes exactly the named entry");
        let b = rt.buckets.get(&160).unwrap();
        if !hit1 { assert!(b.nodes.iter().any(|y| same(y, &n1)), "C12.O4 remove leaves other entries"); }
        if !hit2 { assert!(b.nodes.iter().any(|y| same(y, &n2)), "C12.O4 remove leaves other entries"); }
        kani::cover!(hit1);
        kani::cover!(!hit1 && !hit2);
    } else {
        let mut nb = [0u8; 20];
        nb[0] = kani::any();
        nb[1] = kani::any();
        let new_id = Id::from(nb);
        // the lookup statistics belong to the cached lookups (C20), not to the id: re-keying keeps them
        let (c1, c2, c3): (usize, usize, usize) = (3, 2, 5);
        rt.dht_size_estimates_count = c1;
        rt.responders_samples_count = c2;
        rt.responders_subnets_sum = c3;
        rt.dht_size_estimates_sum = 4.0;
        rt.responders_size_estimates_sum = 8.0;
        rt.reset_id(new_id);
        assert!(*rt.id() == new_id, "C12.O4 reset_id sets the id");
        assert!(rt.dht_size_estimates_count == c1 && rt.responders_samples_count == c2 && rt.responders_subnets_sum == c3, "C20 re-keying keeps the lookup statistics counters");
        assert!(rt.dht_size_estimates_sum == 4.0 && rt.responders_size_estimates_sum == 8.0, "C20 re-keying keeps the lookup statistics sums");
        let mut it = rt.nodes();
        let e0 = it.next();
        let e1 = it.next();
        assert!(it.next().is_none(), "C12.O4 reset_id adds nothing");
        let es = [e0, e1];
        let mut i = 0;
        while i < 2 {
            if let Some(x) = &es[i] {
                assert!(*x.id() != new_id, "C12.O4 table never contains its own id");
                let dx = new_id.distance(x.id());
                let ok = match rt.buckets.get(&dx) { Some(b) => b.nodes.iter().any(|y| same(y, x)), None => false };
                assert!(ok, "C12.O4 entry sits in the bucket of its distance after re-keying");
            }
            i += 1;
        }
        let kept = es[0].is_some() as usize + es[1].is_some() as usize;
        let self1 = *n1.id() == new_id;
        let self2 = *n2.id() == new_id;
        assert!(kept == 2 - self1 as usize - self2 as usize, "C12.O4 reset_id keeps every other entry");
        kani::cover!(kept == 2 && new_id.distance(n1.id()) != new_id.distance(n2.id()));
        kani::cover!(kept == 1);
        std::mem::forget(es);
    }
    std::mem::forget(rt);
    assert!(!crate::verif_env::cut_reached(), "CUT: more distinct (ip, r) pairs than P has slots");
}

//@ ob: C11.O3
//@ tier: off
//@ cap: 3000
//@ standins: vcoll
//@ desc: RoutingTable::closest(t) on a built 3-entry table: result has no duplicates, every element is a table entry, length = min(20, size) = 3, and it is ordered secure-first then XOR distance to t (the brute-force order)
//@ bounds: 3 entries in one bucket (ids [0x80|b0,b1,b2,..,r], IPs 8.8.8.8 / 1.2.3.4 / 10.0.0.x), symbolic target bytes 0,1,19; unwind 21
//@ stubs: std::time::Instant::now -> symbolic whole-second clock; Node::is_secure -> uninterpreted predicate of (id[19] & 3, ip[0] & 1), 8 pre-drawn bits, private addresses exempt as in the real code (BEP42 validity itself: C19.O3/O4 and C11.O1 with the real CRC32C)
//@ functions: RoutingTable::closest, ClosestNodes::add
#[kani::proof]
#[kani::stub(std::time::Instant::now, clock::now)]
#[kani::stub(crate::common::node::Node::is_secure, crate::verif_env::ufs::is_secure)]
#[kani::unwind(21)]
fn c11_o3_table_closest() {
    crate::verif_env::ufs::arm(kani::any());
    clock::set(0);
    let n1 = any_public_node_160();
    let n2 = any_public_node_160();
    let n3 = any_private_node_160();
    kani::assume(pair_ok(&n1, &n2) && pair_ok(&n1, &n3) && pair_ok(&n2, &n3));
    let rt = direct_table(vec![n1.clone(), n2.clone(), n3.clone()]);
    let mut tb = [0u8; 20];
    tb[0] = kani::any();
    tb[1] = kani::any();
    tb[19] = kani::any();
    let t = Id::from(tb);
    let out = rt.closest(t);
    assert!(out.len() == 3, "C11.O3 closest returns min(20,size) nodes");
    assert!(in_order(&out[0], &out[1], &t) && in_order(&out[1], &out[2], &t), "C11.O3 closest ordered secure-first then XOR distance");
    let mut i = 0;
    while i < 3 {
        let x = &out[i];
        assert!(same(x, &n1) || same(x, &n2) || same(x, &n3), "C11.O3 closest returns table members");
        i += 1;
    }
    assert!(out[0].id() != out[1].id() && out[0].id() != out[2].id() && out[1].id() != out[2].id(), "C11.O3 closest has no duplicates");
    kani::cover!(same(&out[0], &n3));
    kani::cover!(same(&out[2], &n3));
    std::mem::forget(out);
    std::mem::forget(rt);
    assert!(!crate::verif_env::cut_reached(), "CUT: more distinct (ip, r) pairs than P has slots");
}

impl RoutingTable {
    /// (dht_size_estimates_count, responders_samples_count, responders_subnets_sum)
    pub(crate) fn kani_stats(&self) -> (usize, usize, usize) {
        (self.dht_size_estimates_count, self.responders_samples_count, self.responders_subnets_sum)
    }
}

/// i-th of 20 insecure nodes on distinct public IPs; ids [0, b, 0..] with b = 0x10..0x1f (bucket
/// 149 of the all-zero table id) for i < 16 and b = 0x08..0x0b (bucket 148) for the last four
fn near_node(i: u8) -> Node {
    let mut a = [0u8; 20];
    a[1] = if i < 16 { 0x10 + i } else { 0x08 + (i - 16) };
    Node::new(Id::from(a), SocketAddrV4::new([11, 0, i, 1].into(), 6881))
}

//@ ob: C11.O3b
//@ tier: off
//@ cap: 3000
//@ mem: 28
//@ standins: vcoll
//@ desc: the cut at 20 with a secure node in a far bucket: a table of 21 nodes -- 20 insecure nodes in two near buckets and one node in bucket 159 that is BEP42-secure (the BEP42 vector 124.31.75.21 / 5fbfbf..01) or, symbolically, an insecure twin -- answers closest(t) with exactly 20 distinct entries ordered secure-first then XOR distance: the secure node is first although it is the farthest by XOR, the one entry left out is the farthest insecure node
//@ bounds: 21 concrete nodes in buckets 148 / 149 / 159, far node secure or not (symbolic), target [0, tb, 0..] with symbolic tb; unwind 23
//@ stubs: std::time::Instant::now -> symbolic whole-second clock
//@ functions: RoutingTable::closest, ClosestNodes::add, Node::is_secure, Node::already_exists
#[kani::proof]
#[kani::stub(std::time::Instant::now, clock::now)]
#[kani::unwind(23)]
fn c11_o3b_closest_cut_at_twenty() {
    clock::set(0);
    let mut rt = RoutingTable::new(Id::from([0u8; 20]));
    let mut b149: Vec<Node> = Vec::with_capacity(16);
    let mut b148: Vec<Node> = Vec::with_capacity(4);
    let mut i = 0u8;
    while i < 20 {
        if i < 16 { b149.push(near_node(i)) } else { b148.push(near_node(i)) }
        i += 1;
    }
    let secure_far: bool = kani::any();
    let mut far_id = [0u8; 20];
    far_id[0] = 0x5f;
    far_id[1] = 0xbf;
    far_id[2] = if secure_far { 0xbf } else { 0x3f };
    far_id[19] = 1;
    let far = Node::new(Id::from(far_id), SocketAddrV4::new([124, 31, 75, 21].into(), 6881));
    rt.buckets.insert(148, KBucket { nodes: b148 });
    rt.buckets.insert(149, KBucket { nodes: b149 });
    rt.buckets.insert(159, KBucket { nodes: vec![far.clone()] });
    assert!(far.is_secure() == secure_far, "CUT harness premise: BEP42 vector is secure, its twin is not");
    let mut tb = [0u8; 20];
    tb[1] = kani::any();
    let t = Id::from(tb);
    let out = rt.closest(t);
    assert!(out.len() == 20, "C11.O3 closest returns min(20, size) nodes");
    let mut has_far = false;
    let mut i = 0usize;
    while i < 20 {
        if i + 1 < 20 {
            assert!(in_order(&out[i], &out[i + 1], &t), "C11.O3 closest ordered secure-first then XOR distance");
            assert!(out[i].id() != out[i + 1].id(), "C11.O3 closest has no duplicates");
        }
        if same(&out[i], &far) {
            has_far = true;
        }
        i += 1;
    }
    if secure_far {
        assert!(same(&out[0], &far), "C11.O3 a secure node in a far bucket is returned first");
    } else {
        assert!(!has_far, "C11.O3 the farthest insecure node is the one left out");
    }
    // the one near node left out (when the far node is in) is not closer than the last returned
    if secure_far {
        let mut i = 0u8;
        while i < 20 {
            let n = near_node(i);
            let mut inside = false;
            let mut j = 0usize;
            while j < 20 {
                if out[j].id() == n.id() { inside = true; }
                j += 1;
            }
            if !inside {
                assert!(out[19].id().xor(&t) <= n.id().xor(&t), "C11.O3 closest returns exactly the first 20 of the order");
            }
            i += 1;
        }
    }
    kani::cover!(secure_far);
    kani::cover!(!secure_far && tb[1] == 0x1f);
    std::mem::forget(out);
    std::mem::forget(rt);
}

//@ ob: C12.O5
//@ tier: off
//@ cap: 2400
//@ standins: vcoll
//@ also: C20
//@ desc: full bucket at the table level, state built through the table's own add(): 20 distinct nodes added at time 0 fill one bucket; at a symbolic later time one more node of the same distance class is added: it is admitted iff the least recently seen entry is stale (> 900 s), then exactly that entry goes; in both cases the bucket holds 20, and size(), is_empty() and iteration over nodes() agree (20 entries)
//@ bounds: 20 concrete nodes (ids [0x80, i, 0..], private IPs 10.0.1.i) added through RoutingTable::add at t = 0; newcomer concrete; 'now' symbolic <= 2000 s; unwind 23, RoutingTableIterator::next 163
//@ stubs: std::time::Instant::now -> symbolic whole-second clock
//@ functions: RoutingTable::{add,size,is_empty,nodes}, KBucket::add, Node::is_stale, RoutingTableIterator::next
//@ unwindset: RoutingTableIterator = 163
#[kani::proof]
#[kani::stub(std::time::Instant::now, clock::now)]
#[kani::unwind(23)]
fn c12_o5_table_full_bucket() {
    clock::set(0);
    let mut rt = RoutingTable::new(Id::from([0u8; 20]));
    let mut i = 0u8;
    while i < 20 {
        let added = rt.add(node_160(i + 1, 0, [10, 0, 1, i]));
        assert!(added, "C12.O5 twenty distinct nodes fit one bucket");
        i += 1;
    }
    assert!(rt.size() == 20, "C12.O3 size agrees with iteration");
    let now: u64 = kani::any();
    kani::assume(now <= 2000);
    clock::set(now);
    let r = rt.add(node_160(99, 0, [10, 0, 2, 1]));
    assert!(r == (now > 900), "C12.O2 full bucket admits iff head is stale (> 15 min)");
    let n = rt.nodes().count();
    assert!(n == 20, "C12.O2 bucket never exceeds 20");
    assert!(rt.size() == n, "C12.O3 size agrees with iteration");
    assert!(!rt.is_empty(), "C12.O3 is_empty agrees with size");
    let b = rt.buckets.get(&160).unwrap();
    if r {
        assert!(b.nodes[0].id().as_bytes()[1] == 2 && b.nodes[19].id().as_bytes()[1] == 99, "C12.O2 only the head is evicted");
    } else {
        assert!(b.nodes[0].id().as_bytes()[1] == 1 && b.nodes[19].id().as_bytes()[1] == 20, "C12.O2 fresh bucket unchanged");
    }
    kani::cover!(r);
    kani::cover!(!r);
    std::mem::forget(rt);
}

//@ ob: C12.O5d
//@ tier: off
//@ cap: 2400
//@ standins: vcoll
//@ also: C20
//@ desc: full bucket at the table level, bucket built directly: 20 distinct nodes created at time 0 fill bucket 160; at a symbolic later time one more node of the same distance class is added through RoutingTable::add: it is admitted iff the least recently seen entry is stale (> 900 s), then exactly that entry goes; in both cases the bucket holds 20, and size(), is_empty() and iteration over nodes() agree (20 entries) -- a replacement is not a growth
//@ bounds: 20 concrete nodes (ids [0x80, i, 0..], private IPs 10.0.1.i) created at t = 0; newcomer concrete; 'now' symbolic <= 2000 s; unwind 23, RoutingTableIterator::next 163
//@ stubs: std::time::Instant::now -> symbolic whole-second clock
//@ functions: RoutingTable::{add,size,is_empty,nodes}, KBucket::add, Node::is_stale, RoutingTableIterator::next
//@ unwindset: RoutingTableIterator = 163
#[kani::proof]
#[kani::stub(std::time::Instant::now, clock::now)]
#[kani::unwind(23)]
fn c12_o5d_table_full_bucket_direct() {
    clock::set(0);
    let mut nodes = Vec::with_capacity(20);
    let mut i = 0u8;
    while i < 20 {
        nodes.push(node_160(i + 1, 0, [10, 0, 1, i]));
        i += 1;
    }
    let mut rt = direct_table(nodes);
    let now: u64 = kani::any();
    kani::assume(now <= 2000);
    clock::set(now);
    let r = rt.add(node_160(99, 0, [10, 0, 2, 1]));
    assert!(r == (now > 900), "C12.O2 full bucket admits iff head is stale (> 15 min)");
    let n = rt.nodes().count();
    assert!(n == 20, "C12.O2 bucket never exceeds 20");
    assert!(rt.size() == n, "C12.O3 size agrees with iteration");
    assert!(!rt.is_empty(), "C12.O3 is_empty agrees with size");
    let b = rt.buckets.get(&160).unwrap();
    if r {
        assert!(b.nodes[0].id().as_bytes()[1] == 2 && b.nodes[19].id().as_bytes()[1] == 99, "C12.O2 only the head is evicted");
    } else {
        assert!(b.nodes[0].id().as_bytes()[1] == 1 && b.nodes[19].id().as_bytes()[1] == 20, "C12.O2 fresh bucket unchanged");
    }
    kani::cover!(r);
    kani::cover!(!r);
    std::mem::forget(rt);
}

//@ ob: C12.O4c
//@ tier: off
//@ cap: 2400
//@ standins: vcoll
//@ also: C20
//@ desc: reset_id on a table with entries in three buckets (distances 155, 158, 160) and a new id whose distance to the old id is exactly 158 (the pivot bucket itself holds an entry): afterwards the id is the new one, all three entries are still present, each sits in the bucket of its distance to the NEW id (the entry of the pivot bucket included), and the table's lookup statistics (counters and sums, which mirror the cached lookups) are untouched
//@ bounds: concrete ids ([0x04..] / [0x20..] / [0x80..]), private IPs; new id [0x20, b1, 0..] with b1 symbolic non-zero; unwind 8, RoutingTableIterator::next 163
//@ stubs: std::time::Instant::now -> symbolic whole-second clock
//@ functions: RoutingTable::{reset_id,add,to_owned_nodes}, Id::distance
//@ unwindset: RoutingTableIterator = 163
#[kani::proof]
#[kani::stub(std::time::Instant::now, clock::now)]
#[kani::unwind(8)]
fn c12_o4c_rekey_pivot_bucket() {
    clock::set(0);
    let mut rt = RoutingTable::new(Id::from([0u8; 20]));
    let mk = |b0: u8, last: u8| {
        let mut a = [0u8; 20];
        a[0] = b0;
        Node::new(Id::from(a), SocketAddrV4::new([10, 0, 0, last].into(), 6881))
    };
    let x = mk(0x04, 1); // distance 155 to the old id
    let y = mk(0x20, 2); // distance 158: the pivot bucket
    let z = mk(0x80, 3); // distance 160
    rt.buckets.insert(155, KBucket { nodes: vec![x.clone()] });
    rt.buckets.insert(158, KBucket { nodes: vec![y.clone()] });
    rt.buckets.insert(160, KBucket { nodes: vec![z.clone()] });
    rt.dht_size_estimates_count = 3;
    rt.responders_samples_count = 2;
    rt.responders_subnets_sum = 5;
    rt.dht_size_estimates_sum = 4.0;
    rt.responders_size_estimates_sum = 8.0;
    let mut nb = [0u8; 20];
    nb[0] = 0x20;
    nb[1] = kani::any();
    kani::assume(nb[1] != 0);
    let new_id = Id::from(nb);
    rt.reset_id(new_id);
    assert!(*rt.id() == new_id, "C12.O4 reset_id sets the id");
    assert!(rt.size() == 3, "C12.O4 reset_id keeps every other entry");
    let es = [x, y, z];
    let mut i = 0;
    while i < 3 {
        let d = new_id.distance(es[i].id());
        let ok = match rt.buckets.get(&d) {
            Some(b) => b.nodes.iter().any(|n| n.id() == es[i].id()),
            None => false,
        };
        assert!(ok, "C12.O4 entry sits in the bucket of its distance after re-keying");
        i += 1;
    }
    assert!(rt.dht_size_estimates_count == 3 && rt.responders_samples_count == 2 && rt.responders_subnets_sum == 5, "C20 re-keying keeps the lookup statistics counters");
    assert!(rt.dht_size_estimates_sum == 4.0 && rt.responders_size_estimates_sum == 8.0, "C20 re-keying keeps the lookup statistics sums");
    kani::cover!(nb[1] == 1);
    kani::cover!(nb[1] >= 0x80);
    std::mem::forget(es);
    std::mem::forget(rt);
}

//@ ob: C12.O3k
//@ tier: off
//@ cap: 2400
//@ standins: vcoll
//@ also: C14
//@ desc: a known id that re-appears from ANOTHER IP does not bypass the per-IP Sybil rule: the table holds A (1.2.3.4) and an insecure B (8.8.8.8); a node with A's id arriving from 8.8.8.8 (secure or not) is refused and the table is unchanged (A keeps its address, B stays) -- while the same id arriving again from A's own address refreshes A (C14.O1: last_seen = now, exactly one entry for A)
//@ bounds: concrete ids in one bucket (160); A secure / insecure and the incoming node secure / insecure as pre-drawn bits of the uninterpreted validity predicate; B insecure (assumed); symbolic clock step; unwind 21
//@ stubs: Node::is_secure -> uninterpreted predicate (see C12.O3); std::time::Instant::now -> symbolic whole-second clock
//@ functions: RoutingTable::add (per-IP scan skipping same-id entries), KBucket::add
#[kani::proof]
#[kani::stub(std::time::Instant::now, clock::now)]
#[kani::stub(crate::common::node::Node::is_secure, crate::verif_env::ufs::is_secure)]
#[kani::unwind(21)]
fn c12_o3k_known_id_other_ip() {
    crate::verif_env::ufs::arm(kani::any());
    clock::set(0);
    let mut ia = [0u8; 20];
    ia[0] = 0x80;
    ia[1] = 1;
    ia[19] = 1;
    let mut ib = [0u8; 20];
    ib[0] = 0x80;
    ib[1] = 2;
    ib[19] = 2;
    let a_addr = SocketAddrV4::new([1, 2, 3, 4].into(), 6881);
    let b_addr = SocketAddrV4::new([8, 8, 8, 8].into(), 6881);
    let a = Node::new(Id::from(ia), a_addr);
    let b = Node::new(Id::from(ib), b_addr);
    kani::assume(!b.is_secure());
    let mut rt = direct_table(vec![a.clone(), b.clone()]);
    let dt: u64 = kani::any();
    kani::assume(dt <= 2000);
    clock::set(dt);
    let other_ip: bool = kani::any();
    let inc = Node::new(Id::from(ia), if other_ip { b_addr } else { a_addr });
    let r = rt.add(inc);
    let bk = rt.buckets.get(&160).unwrap();
    assert!(bk.nodes.len() == 2, "C14.O1 re-adding a known peer keeps the table size");
    let mut a_count = 0;
    let mut a_at_b = false;
    let mut a_fresh = false;
    let mut b_there = false;
    let mut i = 0;
    while i < 2 {
        let n = &bk.nodes[i];
        if n.id() == a.id() {
            a_count += 1;
            a_at_b = n.address() == b_addr;
            a_fresh = n.0.last_seen == clock::now();
        }
        if n.id() == b.id() {
            b_there = true;
        }
        i += 1;
    }
    assert!(a_count == 1 && b_there, "C14.O1 known peer present exactly once");
    if other_ip {
        assert!(!r && !a_at_b, "C12.O3 ids distinct and per-IP Sybil limit holds");
    } else {
        assert!(r && a_fresh, "C14.O1 a reply refreshes the peer's last_seen");
    }
    kani::cover!(other_ip);
    kani::cover!(!other_ip && dt > 900);
    std::mem::forget(rt);
}

fn iteration_instance(gap: u8) {
    clock::set(0);
    let mut rt = RoutingTable::new(Id::from([0u8; 20]));
    let mut ida = [0u8; 20];
    ida[0] = 0x04; // distance 155
    // (ports symbolic: the entries are not constants, the table shape is)
    let a = Node::new(Id::from(ida), SocketAddrV4::new([10, 0, 0, 1].into(), kani::any()));
    let b = node_160(1, 0, [10, 0, 0, 2]);
    let c = node_160(2, 0, [10, 0, 0, 3]);
    if gap == 1 {
        rt.buckets.insert(150, KBucket { nodes: Vec::with_capacity(1) });
    } else if gap == 2 {
        rt.buckets.insert(157, KBucket { nodes: Vec::with_capacity(1) });
    }
    rt.buckets.insert(155, KBucket { nodes: vec![a.clone()] });
    rt.buckets.insert(160, KBucket { nodes: vec![b.clone(), c.clone()] });
    let mut it = rt.nodes();
    let e0 = it.next();
    let e1 = it.next();
    let e2 = it.next();
    let e3 = it.next();
    assert!(matches!(&e0, Some(x) if same(x, &a)), "C12.O3 nodes() yields exactly the entries");
    assert!(matches!(&e1, Some(x) if same(x, &b)), "C12.O3 nodes() yields exactly the entries");
    assert!(matches!(&e2, Some(x) if same(x, &c)), "C12.O3 nodes() yields exactly the entries");
    assert!(e3.is_none(), "C12.O3 nodes() yields exactly the entries");
    assert!(rt.size() == 3 && !rt.is_empty(), "C12.O3 size agrees with iteration");
    kani::cover!(a.address().port() == 0);
    kani::cover!(a.address().port() != 0);
    std::mem::forget(rt);
}

//@ ob: C12.O6a
//@ tier: off
//@ cap: 2400
//@ standins: vcoll
//@ also: C14 C20
//@ desc: iteration agrees with the table's contents when the bucket map holds an emptied bucket (what remove() leaves behind) BEFORE the occupied ones: nodes() yields exactly the three entries (nearer buckets first, bucket order inside), size() = 3, is_empty() is false -- an emptied bucket never hides the buckets after it
//@ bounds: buckets 150 (empty), 155 (1 node), 160 (2 nodes); concrete ids, private IPs, one symbolic port; unwind 8, RoutingTableIterator::next 163
//@ stubs: std::time::Instant::now -> symbolic whole-second clock
//@ functions: RoutingTable::{nodes,size,is_empty}, RoutingTableIterator::next
//@ unwindset: RoutingTableIterator = 163
#[kani::proof]
#[kani::stub(std::time::Instant::now, clock::now)]
#[kani::unwind(8)]
fn c12_o6a_iteration_empty_bucket_first() {
    iteration_instance(1);
}

//@ ob: C12.O6b
//@ tier: off
//@ cap: 2400
//@ standins: vcoll
//@ also: C14 C20
//@ desc: as C12.O6a with the emptied bucket BETWEEN the occupied ones (157 between 155 and 160)
//@ bounds: buckets 155 (1 node), 157 (empty), 160 (2 nodes); concrete ids, private IPs, one symbolic port; unwind 8, RoutingTableIterator::next 163
//@ stubs: std::time::Instant::now -> symbolic whole-second clock
//@ functions: RoutingTable::{nodes,size,is_empty}, RoutingTableIterator::next
//@ unwindset: RoutingTableIterator = 163
#[kani::proof]
#[kani::stub(std::time::Instant::now, clock::now)]
#[kani::unwind(8)]
fn c12_o6b_iteration_empty_bucket_between() {
    iteration_instance(2);
}

//@ ob: C12.O6c
//@ tier: off
//@ cap: 2400
//@ standins: vcoll
//@ also: C14 C20
//@ desc: a table whose only bucket has been emptied (every peer purged by a ping round) is empty: is_empty() is true, size() is 0, nodes() yields nothing -- so the maintenance loop re-bootstraps; and after one add it is non-empty with size 1
//@ bounds: one emptied bucket (160); then one add of a node with a symbolic id byte in class 160; unwind 21, RoutingTableIterator::next 163
//@ stubs: std::time::Instant::now -> symbolic whole-second clock
//@ functions: RoutingTable::{is_empty,size,nodes,add}, RoutingTableIterator::next
//@ unwindset: RoutingTableIterator = 163
#[kani::proof]
#[kani::stub(std::time::Instant::now, clock::now)]
#[kani::unwind(21)]
fn c12_o6c_emptied_table_is_empty() {
    clock::set(0);
    let mut rt = RoutingTable::new(Id::from([0u8; 20]));
    rt.buckets.insert(160, KBucket { nodes: Vec::with_capacity(1) });
    assert!(rt.is_empty() && rt.size() == 0, "C12.O3 is_empty agrees with size");
    assert!(rt.nodes().next().is_none(), "C12.O3 nodes() yields exactly the entries");
    let n = node_160(kani::any(), 0, [10, 0, 0, 2]);
    let r = rt.add(n.clone());
    assert!(r && !rt.is_empty() && rt.size() == 1, "C12.O3 size agrees with iteration");
    let mut it = rt.nodes();
    assert!(matches!(it.next(), Some(x) if same(&x, &n)) && it.next().is_none(), "C12.O3 nodes() yields exactly the entries");
    kani::cover!(r);
    std::mem::forget(rt);
}

//! C03 (authorised, valid writes only), C04 (seq / CAS rules), C15.O4, C11.O5 —
//! `Server::handle_request`, one composite instance per request kind.
//! Private names used: `Server { tokens, peers, signed_peers, immutable_values, mutable_values,
//! filter }`, `ServerSettings`.
//! Stand-ins: `lru` (fixed-slot), `vcoll`, `tracing`.
//! @needs: mutable signed_announce peers signed_peers tokens
use super::*;
#[allow(unused_imports)]
use crate::verif_env::k as kani;
use crate::common::kani_h_mutable as mh;
use crate::common::kani_h_signed_announce as sh;
use crate::verif_env::{clock, cut, cut_reached, rnd, uf};

#[derive(Debug, Clone)]
struct Gate(bool);
static mut GATE_CALLS: crate::verif_env::Ghost<usize> = crate::verif_env::ghost(36, 0);
impl RequestFilter for Gate {
    fn allow_request(&self, _request: &RequestSpecific, _from: SocketAddrV4) -> bool {
        unsafe { GATE_CALLS.v += 1 };
        self.0
    }
}

/// `Tokens::validate` as an oracle with a pre-drawn verdict, for obligations that are about what
/// happens *after* the token check (C04): which tokens validate is C15.O1 / C03.O1-O4.
static mut TOKEN_VERDICT: crate::verif_env::Ghost<bool> = crate::verif_env::ghost(60, false);
static mut TOKEN_CHECKS: crate::verif_env::Ghost<usize> = crate::verif_env::ghost(61, 0);
fn validate_oracle(_t: &mut Tokens, _a: SocketAddrV4, _tok: &[u8]) -> bool {
    unsafe {
        TOKEN_CHECKS.v += 1;
        TOKEN_VERDICT.v
    }
}
fn token_fixed(_t: &mut Tokens, _a: SocketAddrV4) -> [u8; 4] {
    [9, 9, 9, 9]
}

fn small_server(cap: usize, allow: bool) -> Server {
    // 40 random bytes for the two token secrets: symbolic
    let secrets: [u8; 40] = kani::env();
    rnd::preload(&secrets);
    Server::new(ServerSettings {
        max_info_hashes: cap,
        max_peers_per_info_hash: cap,
        max_immutable_values: cap,
        max_mutable_values: cap,
        filter: Box::new(Gate(allow)),
    })
}

fn vi_cut(_v: &[u8], _t: Id) -> bool {
    cut();
    false
}
fn closest_cut(_rt: &RoutingTable, _t: Id) -> Box<[crate::common::Node]> {
    cut();
    Box::new([])
}
static mut CLOSEST_ASKED: crate::verif_env::Ghost<Option<Id>> = crate::verif_env::ghost(37, None);
fn closest_probe(_rt: &RoutingTable, t: Id) -> Box<[crate::common::Node]> {
    unsafe { CLOSEST_ASKED.v = Some(t) };
    Box::new([])
}

/// cheap array check (a full `==` on 32/64-byte arrays is a memcmp loop the unwind bound must cover)
fn ends<const N: usize>(a: &[u8; N], v: u8) -> bool {
    a[0] == v && a[N / 2] == v && a[N - 1] == v
}

fn code_of(reply: &Option<MessageType>) -> Option<i32> {
    match reply {
        Some(MessageType::Error(e)) => Some(e.code),
        _ => None,
    }
}
fn is_ack(reply: &Option<MessageType>, id: &Id) -> bool {
    matches!(reply, Some(MessageType::Response(ResponseSpecific::Ping(p))) if p.responder_id == *id)
}

const T1: [u8; 20] = [3u8; 20];
const T2: [u8; 20] = [4u8; 20];
const ME: [u8; 20] = [1u8; 20];

/// token: length 4 with symbolic bytes, or one of the lengths 0 / 3 / 5
fn any_token() -> Box<[u8]> {
    let b: [u8; 5] = kani::env();
    let which: u8 = kani::any();
    match which {
        0 => Box::new([]),
        1 => Box::new([b[0], b[1], b[2]]),
        2 => Box::new([b[0], b[1], b[2], b[3], b[4]]),
        _ => Box::new([b[0], b[1], b[2], b[3]]),
    }
}

// ------------------------------------------------------------------------------------------
// C04: mutable put rules
// ------------------------------------------------------------------------------------------

fn put_mutable_rules(fix_prev: Option<bool>, fix_cas: Option<bool>) {
    clock::set(0);
    let mut server = small_server(1, true);
    let rt = RoutingTable::new(Id::from(ME));
    let from = SocketAddrV4::new([10, 0, 0, 7].into(), 6881);
    let token_ok: bool = kani::any();
    unsafe { TOKEN_VERDICT.v = token_ok };
    let token: [u8; 4] = kani::env();
    let target = Id::from(T1);
    let has_prev: bool = match fix_prev { Some(b) => b, None => kani::any() };
    let seq0: i64 = kani::any();
    let val0: u8 = kani::any();
    if has_prev {
        server.mutable_values.put(target, MutableItem::kani_build(target, [1; 32], [2; 64], Box::new([val0]), seq0, None));
    }
    let seq: i64 = kani::any();
    let cas: Option<i64> = match fix_cas { Some(true) => Some(kani::any()), Some(false) => None, None => kani::any() };
    let val: u8 = kani::any();
    let sig_valid: bool = kani::any();
    let target_ok: bool = kani::any();
    // the request's signature bytes either repeat the stored item's (a replayed signature, possibly
    // around another value) or differ from them
    let replay_sig: bool = kani::any();
    let sb: u8 = if replay_sig { 2 } else { 5 };
    unsafe {
        mh::CONTRACT_SIG_VALID.v = sig_valid;
        mh::CONTRACT_TARGET_OK.v = target_ok;
    }
    let req = RequestSpecific {
        requester_id: Id::from([2u8; 20]),
        request_type: RequestTypeSpecific::Put(PutRequest {
            token: Box::new(token),
            put_request_type: PutRequestSpecific::PutMutable(PutMutableRequestArguments {
                target, v: Box::new([val]), k: [1; 32], seq, sig: [sb; 64], salt: None, cas,
            }),
        }),
    };
    let reply = server.handle_request(&rt, &rt, from, req);
    assert!(unsafe { TOKEN_CHECKS.v } == 1, "C03.O2 the token is checked on every put_mutable");
    let now = server.mutable_values.peek(&target);
    let code = code_of(&reply);
    // O1: never decreases
    if has_prev {
        assert!(now.is_some() && now.unwrap().seq() >= seq0, "C04.O1 stored seq never decreases");
    }
    let cas_bad = has_prev && cas.is_some() && cas != Some(seq0);
    if !token_ok {
        assert!(code == Some(203), "C03.O2 put_mutable without a valid token answered 203");
    } else if cas_bad {
        assert!(code == Some(301), "C04.O3 cas mismatch answered 301");
    } else if has_prev && seq < seq0 {
        assert!(code == Some(302), "C04.O2 lower seq answered 302");
    } else if !sig_valid || !target_ok {
        assert!(code == Some(206), "C03.O2 invalid signature or foreign target answered 206");
    } else {
        assert!(code.is_none() && is_ack(&reply, rt.id()), "C04.O4 valid put acknowledged");
        let it = now.unwrap();
        assert!(it.seq() == seq && it.value() == &[val] && ends(it.signature(), sb), "C04.O4 accepted item stored");
    }
    if code.is_some() {
        if has_prev {
            let it = now.unwrap();
            assert!(it.seq() == seq0 && it.value() == &[val0] && ends(it.signature(), 2), "C04 rejected put leaves the stored item unchanged");
        } else {
            assert!(now.is_none(), "C04 rejected put stores nothing");
        }
        assert!(code == Some(203) || code == Some(206) || code == Some(301) || code == Some(302), "C03.O5 error code is a BEP code");
    }
    // stored => authorised and valid (C03)
    if code.is_none() {
        assert!(token_ok && sig_valid && target_ok, "C03.O2 mutable item stored only with valid token, signature and target");
    }
    assert!(!cut_reached(), "CUT: another arm or random bytes reached");
    // (instances with a fixed shape make some witnesses inapplicable: trivially true there)
    let (p_ok, np_ok, c_ok, nc_ok) = (fix_prev != Some(false), fix_prev != Some(true), fix_cas != Some(false), fix_cas != Some(true));
    kani::cover!(!(p_ok && c_ok) || code == Some(301));
    kani::cover!(!(p_ok && nc_ok) || (code == Some(302) && cas.is_none()));
    kani::cover!(!(p_ok && c_ok) || (code == Some(302) && cas.is_some()));
    kani::cover!(code == Some(206));
    kani::cover!(code == Some(203));
    kani::cover!(!p_ok || (code.is_none() && has_prev && seq == seq0));
    kani::cover!(!(p_ok && c_ok) || (code.is_none() && has_prev && seq > seq0 && cas == Some(seq0)));
    kani::cover!(!(np_ok && c_ok) || (code.is_none() && !has_prev && cas.is_some()));
    kani::cover!(!p_ok || (code == Some(206) && has_prev && replay_sig && seq == seq0 && val != val0));
    std::mem::forget(reply);
    std::mem::forget(server);
    std::mem::forget(rt);
}


//@ ob: C04.O1
//@ unwindset_raw: memcmp.0:66
//@ tier: thorough
//@ cap: 2400
//@ rss: 8
//@ time: 360
//@ standins: tracing lru vcoll
//@ also: C03
//@ desc: one put_mutable against a store holding nothing or one item for the target (seq0): the stored seq never decreases; cas present and != seq0 => 301; seq < seq0 => 302; invalid signature or target != SHA1(k||salt) => 206; bad token => 203; every error leaves the stored item unchanged; otherwise the put's (seq, value) is stored and acknowledged; equal seq (the same item again) is accepted
//@ bounds: full i64 seq0/seq/cas; cas absent or present; symbolic 1-byte values; symbolic verdict bits (signature valid, target matches) through the contract of from_dht_message (C02.O1); token verdict symbolic (Tokens::validate as an oracle: which tokens validate is C15.O1 / C03.O1-O4); the request's signature bytes equal to the stored item's or different (replayed signature around another value); capacity 1; unwind 26, memcmp 66
//@ inv: mutable_values maps a target to some item (trivially inductive; pre-state by direct insertion)
//@ stubs: MutableItem::from_dht_message -> contract (leaf C02.O1a-e); Tokens::validate -> oracle with pre-drawn verdict, call counted; other arms' validators (from_dht_request, validate_immutable, RoutingTable::closest) -> flagged cuts; Instant::now -> symbolic clock; getrandom::fill -> preloaded symbolic bytes
//@ functions: Server::handle_request (put_mutable arm), Tokens::{should_update,validate}, LruCache get/put (stand-in)
#[kani::proof]
#[kani::stub(crate::common::mutable::MutableItem::from_dht_message, mh::from_dht_message_contract)]
#[kani::stub(crate::common::signed_announce::SignedAnnounce::from_dht_request, sh::from_dht_cut)]
#[kani::stub(crate::common::immutable::validate_immutable, vi_cut)]
#[kani::stub(crate::common::routing_table::RoutingTable::closest, closest_cut)]
#[kani::stub(crate::core::server::tokens::Tokens::validate, validate_oracle)]
#[kani::stub(std::time::Instant::now, clock::now)]
#[kani::stub(getrandom::fill, rnd::fill)]
#[kani::unwind(26)]
fn c04_o1_put_mutable_rules() {
    put_mutable_rules(None, None);
}

//@ ob: C04.O1p
//@ unwindset_raw: memcmp.0:66
//@ tier: quick
//@ cap: 800
//@ rss: 8.0
//@ time: 211
//@ standins: tracing lru vcoll
//@ also: C03
//@ desc: instance of C04.O1 with an item stored and a cas on the request: cas != stored seq => 301 (also when the put's seq is lower or equal), cas = stored seq and seq lower => 302, never a roll-back; all other rows of C04.O1
//@ bounds: as C04.O1 with has_prev = true, cas = Some(symbolic i64)
//@ inv: mutable_values maps a target to some item (trivially inductive; pre-state by direct insertion)
//@ stubs: as C04.O1
//@ functions: Server::handle_request (put_mutable arm), Tokens::{should_update,validate}, LruCache get/put (stand-in)
#[kani::proof]
#[kani::stub(crate::common::mutable::MutableItem::from_dht_message, mh::from_dht_message_contract)]
#[kani::stub(crate::common::signed_announce::SignedAnnounce::from_dht_request, sh::from_dht_cut)]
#[kani::stub(crate::common::immutable::validate_immutable, vi_cut)]
#[kani::stub(crate::common::routing_table::RoutingTable::closest, closest_cut)]
#[kani::stub(crate::core::server::tokens::Tokens::validate, validate_oracle)]
#[kani::stub(std::time::Instant::now, clock::now)]
#[kani::stub(getrandom::fill, rnd::fill)]
#[kani::unwind(26)]
fn c04_o1p_put_mutable_prev_cas() {
    put_mutable_rules(Some(true), Some(true));
}

//@ ob: C04.O1q
//@ unwindset_raw: memcmp.0:66
//@ tier: quick
//@ cap: 800
//@ rss: 8.0
//@ time: 190
//@ standins: tracing lru vcoll
//@ also: C03
//@ desc: instance of C04.O1 with an item stored and no cas on the request
//@ bounds: as C04.O1 with has_prev = true, cas = None
//@ inv: mutable_values maps a target to some item (trivially inductive; pre-state by direct insertion)
//@ stubs: as C04.O1
//@ functions: Server::handle_request (put_mutable arm), Tokens::{should_update,validate}, LruCache get/put (stand-in)
#[kani::proof]
#[kani::stub(crate::common::mutable::MutableItem::from_dht_message, mh::from_dht_message_contract)]
#[kani::stub(crate::common::signed_announce::SignedAnnounce::from_dht_request, sh::from_dht_cut)]
#[kani::stub(crate::common::immutable::validate_immutable, vi_cut)]
#[kani::stub(crate::common::routing_table::RoutingTable::closest, closest_cut)]
#[kani::stub(crate::core::server::tokens::Tokens::validate, validate_oracle)]
#[kani::stub(std::time::Instant::now, clock::now)]
#[kani::stub(getrandom::fill, rnd::fill)]
#[kani::unwind(26)]
fn c04_o1q_put_mutable_prev_nocas() {
    put_mutable_rules(Some(true), Some(false));
}

//@ ob: C04.O1r
//@ unwindset_raw: memcmp.0:66
//@ tier: quick
//@ cap: 800
//@ rss: 6.0
//@ time: 100
//@ standins: tracing lru vcoll
//@ also: C03
//@ desc: instance of C04.O1 with nothing stored for the target (cas absent or any value: accepted when otherwise valid)
//@ bounds: as C04.O1 with has_prev = false
//@ inv: mutable_values maps a target to some item (trivially inductive; pre-state by direct insertion)
//@ stubs: as C04.O1
//@ functions: Server::handle_request (put_mutable arm), Tokens::{should_update,validate}, LruCache get/put (stand-in)
#[kani::proof]
#[kani::stub(crate::common::mutable::MutableItem::from_dht_message, mh::from_dht_message_contract)]
#[kani::stub(crate::common::signed_announce::SignedAnnounce::from_dht_request, sh::from_dht_cut)]
#[kani::stub(crate::common::immutable::validate_immutable, vi_cut)]
#[kani::stub(crate::common::routing_table::RoutingTable::closest, closest_cut)]
#[kani::stub(crate::core::server::tokens::Tokens::validate, validate_oracle)]
#[kani::stub(std::time::Instant::now, clock::now)]
#[kani::stub(getrandom::fill, rnd::fill)]
#[kani::unwind(26)]
fn c04_o1r_put_mutable_empty() {
    put_mutable_rules(Some(false), None);
}

//@ ob: C04.O5
//@ tier: quick
//@ cap: 800
//@ rss: 4.0
//@ time: 150
//@ standins: tracing lru vcoll
//@ also: C03 C11
//@ desc: one get (seq filter absent or symbolic) against a mutable store holding nothing or one item: returns exactly the stored (v, k, seq, sig) / only the seq (NoMoreRecentValue) iff the filter is at or above the stored seq / NoValues iff nothing is stored; every reply carries the token Tokens::generate_token issued for the requester and asks the routing table for closest(target); the store is unchanged
//@ bounds: full i64 seq0 and filter; symbolic 1-byte value; target stored or a different target; unwind 26
//@ stubs: RoutingTable::closest -> probe recording the target (node lists are C11); Tokens::generate_token -> fixed token (that a generated token validates is C15.O1b); validators of put arms -> flagged cuts; Instant::now; getrandom::fill
//@ functions: Server::handle_request (get arm), Server::handle_get_mutable
#[kani::proof]
#[kani::stub(crate::common::mutable::MutableItem::from_dht_message, mh::from_dht_message_cut)]
#[kani::stub(crate::common::signed_announce::SignedAnnounce::from_dht_request, sh::from_dht_cut)]
#[kani::stub(crate::common::immutable::validate_immutable, vi_cut)]
#[kani::stub(crate::common::routing_table::RoutingTable::closest, closest_probe)]
#[kani::stub(crate::core::server::tokens::Tokens::generate_token, token_fixed)]
#[kani::stub(std::time::Instant::now, clock::now)]
#[kani::stub(getrandom::fill, rnd::fill)]
#[kani::unwind(26)]
fn c04_o5_get_mutable() {
    clock::set(0);
    let mut server = small_server(1, true);
    let rt = RoutingTable::new(Id::from(ME));
    let from = SocketAddrV4::new([10, 0, 0, 7].into(), 6881);
    let stored_t = Id::from(T1);
    let has: bool = kani::any();
    let seq0: i64 = kani::any();
    let val0: u8 = kani::any();
    if has {
        server.mutable_values.put(stored_t, MutableItem::kani_build(stored_t, [1; 32], [2; 64], Box::new([val0]), seq0, None));
    }
    let same: bool = kani::any();
    let target = if same { stored_t } else { Id::from(T2) };
    let filter: Option<i64> = kani::any();
    let req = RequestSpecific {
        requester_id: Id::from([2u8; 20]),
        request_type: RequestTypeSpecific::GetValue(GetValueRequestArguments { target, seq: filter, salt: None }),
    };
    let reply = server.handle_request(&rt, &rt, from, req);
    let hit = has && same;
    match &reply {
        Some(MessageType::Response(ResponseSpecific::GetMutable(a))) => {
            assert!(hit, "C04.O5 value returned only if stored");
            assert!(filter.is_none() || filter.unwrap() < seq0, "C04.O5 full item only below the stored seq");
            assert!(a.seq == seq0 && &*a.v == &[val0] && ends(&a.k, 1) && ends(&a.sig, 2), "C04.O5 get returns exactly the stored item");
            assert!(&*a.token == &[9, 9, 9, 9], "C15.O4 reply carries the token generated for the requester");
        }
        Some(MessageType::Response(ResponseSpecific::NoMoreRecentValue(a))) => {
            assert!(hit && filter.is_some() && filter.unwrap() >= seq0, "C04.O5 NoMoreRecentValue iff filter at or above stored seq");
            assert!(a.seq == seq0, "C04.O5 NoMoreRecentValue carries the stored seq");
            assert!(&*a.token == &[9, 9, 9, 9], "C15.O4 reply carries the token generated for the requester");
        }
        Some(MessageType::Response(ResponseSpecific::NoValues(a))) => {
            assert!(!hit, "C04.O5 NoValues iff nothing stored for the target");
            assert!(&*a.token == &[9, 9, 9, 9], "C15.O4 reply carries the token generated for the requester");
        }
        _ => assert!(false, "C04.O5 get answered with a value, a seq or NoValues"),
    }
    assert!(unsafe { CLOSEST_ASKED.v } == Some(target), "C11.O5 reply nodes are the routing table's closest(target)");
    let after = server.mutable_values.peek(&stored_t);
    assert!(after.is_some() == has, "C04.O5 get leaves the store unchanged");
    assert!(!cut_reached(), "CUT: another arm reached");
    kani::cover!(matches!(&reply, Some(MessageType::Response(ResponseSpecific::GetMutable(_)))) && filter.is_some());
    kani::cover!(matches!(&reply, Some(MessageType::Response(ResponseSpecific::NoMoreRecentValue(_)))));
    kani::cover!(matches!(&reply, Some(MessageType::Response(ResponseSpecific::NoValues(_)))) && has);
    std::mem::forget(reply);
    std::mem::forget(server);
    std::mem::forget(rt);
}

//@ ob: C04.O6
//@ tier: quick
//@ cap: 800
//@ rss: 8.0
//@ time: 374
//@ standins: tracing lru vcoll
//@ also: C20
//@ desc: capacity bound: with capacity 1 and an item stored for T, a valid put for another target T' evicts T (the store never exceeds its capacity, least recently used goes); the evicted target then reads as not stored
//@ bounds: capacity 1; symbolic seqs; unwind 26
//@ stubs: as C04.O1
//@ functions: Server::handle_request (put_mutable arm), LruCache::put (stand-in; the real crate's eviction is C20.O2's stated limit)
#[kani::proof]
#[kani::stub(crate::common::mutable::MutableItem::from_dht_message, mh::from_dht_message_contract)]
#[kani::stub(crate::common::signed_announce::SignedAnnounce::from_dht_request, sh::from_dht_cut)]
#[kani::stub(crate::common::immutable::validate_immutable, vi_cut)]
#[kani::stub(crate::common::routing_table::RoutingTable::closest, closest_cut)]
#[kani::stub(std::time::Instant::now, clock::now)]
#[kani::stub(getrandom::fill, rnd::fill)]
#[kani::unwind(26)]
fn c04_o6_capacity_one_eviction() {
    clock::set(0);
    let mut server = small_server(1, true);
    let rt = RoutingTable::new(Id::from(ME));
    let from = SocketAddrV4::new([10, 0, 0, 7].into(), 6881);
    let token = server.tokens.generate_token(from);
    let (t1, t2) = (Id::from(T1), Id::from(T2));
    let seq0: i64 = kani::any();
    server.mutable_values.put(t1, MutableItem::kani_build(t1, [1; 32], [2; 64], Box::new([9]), seq0, None));
    let seq: i64 = kani::any();
    unsafe {
        mh::CONTRACT_SIG_VALID.v = true;
        mh::CONTRACT_TARGET_OK.v = true;
    }
    let req = RequestSpecific {
        requester_id: Id::from([2u8; 20]),
        request_type: RequestTypeSpecific::Put(PutRequest {
            token: Box::new(token),
            put_request_type: PutRequestSpecific::PutMutable(PutMutableRequestArguments {
                target: t2, v: Box::new([7]), k: [1; 32], seq, sig: [5; 64], salt: None, cas: None,
            }),
        }),
    };
    let reply = server.handle_request(&rt, &rt, from, req);
    assert!(is_ack(&reply, rt.id()), "C04.O6 valid put for a new target acknowledged");
    assert!(server.mutable_values.len() == 1, "C20.O2 store never exceeds its capacity");
    assert!(server.mutable_values.peek(&t1).is_none(), "C04.O6 least recently used item evicted");
    assert!(server.mutable_values.peek(&t2).map(|i| i.seq()) == Some(seq), "C04.O6 new item stored");
    assert!(!cut_reached(), "CUT: another arm reached");
    kani::cover!(true);
    std::mem::forget(reply);
    std::mem::forget(server);
    std::mem::forget(rt);
}

// ------------------------------------------------------------------------------------------
// C03: the other three put kinds, filter veto, boundaries
// ------------------------------------------------------------------------------------------

//@ ob: C03.O1
//@ tier: thorough
//@ cap: 2400
//@ rss: 10
//@ time: 912
//@ standins: tracing lru vcoll
//@ also: C15
//@ desc: put_immutable: the value is stored only if the token validates for the sender's IP (current or previous secret), len(v) <= 1000 and hash(v) = target; reply 203 for a bad token or hash mismatch, ack otherwise; an error leaves the store unchanged; the stored bytes are the request's bytes
//@ bounds: token of length 0/3/4/5 with symbolic bytes; symbolic sender IP and port; 1-byte symbolic value; target = H(v) or a different id (H uninterpreted; its binding to SHA-1 is C02.O3); symbolic token secrets; capacity 1; unwind 26
//@ stubs: hash_immutable -> uninterpreted function H; other arms' validators -> flagged cuts; Instant::now; getrandom::fill
//@ functions: Server::handle_request (put_immutable arm), validate_immutable, Tokens::validate
#[kani::proof]
#[kani::stub(crate::common::mutable::MutableItem::from_dht_message, mh::from_dht_message_cut)]
#[kani::stub(crate::common::signed_announce::SignedAnnounce::from_dht_request, sh::from_dht_cut)]
#[kani::stub(crate::common::immutable::hash_immutable, uf::h)]
#[kani::stub(crate::common::routing_table::RoutingTable::closest, closest_cut)]
#[kani::stub(std::time::Instant::now, clock::now)]
#[kani::stub(getrandom::fill, rnd::fill)]
#[kani::unwind(26)]
fn c03_o1_put_immutable() {
    clock::set(0);
    let digests: [[u8; 20]; 3] = kani::env();
    uf::arm(digests);
    let mut server = small_server(1, true);
    let rt = RoutingTable::new(Id::from(ME));
    let from = SocketAddrV4::new(kani::any::<u32>().into(), kani::any());
    let good = server.tokens.generate_token(from);
    let use_good: bool = kani::any();
    let token: Box<[u8]> = if use_good { Box::new(good) } else { any_token() };
    let vb: u8 = kani::any();
    let honest: bool = kani::any();
    let tb: [u8; 20] = kani::env();
    let target: Id = if honest { uf::h(&[vb]).into() } else { Id::from(tb) };
    let hash_ok = uf::h(&[vb]) == *target.as_bytes();
    let req = RequestSpecific {
        requester_id: Id::from([2u8; 20]),
        request_type: RequestTypeSpecific::Put(PutRequest {
            token: token.clone(),
            put_request_type: PutRequestSpecific::PutImmutable(PutImmutableRequestArguments { target, v: Box::new([vb]) }),
        }),
    };
    let reply = server.handle_request(&rt, &rt, from, req);
    let token_ok = server.tokens.clone().validate(from, &token);
    let stored = server.immutable_values.peek(&target).map(|v| v.len() == 1 && v[0] == vb);
    let code = code_of(&reply);
    if token_ok && hash_ok {
        assert!(is_ack(&reply, rt.id()), "C03.O1 valid immutable put acknowledged");
        assert!(stored == Some(true), "C03.O1 acknowledged value is stored byte for byte");
    } else {
        assert!(code == Some(203), "C03.O1 bad token or hash mismatch answered 203");
        assert!(stored.is_none(), "C03.O5 rejected put stores nothing");
    }
    assert!(!cut_reached(), "CUT: another arm reached");
    kani::cover!(token_ok && hash_ok);
    kani::cover!(token_ok && !hash_ok);
    kani::cover!(!token_ok && token.len() == 4);
    kani::cover!(!token_ok && token.len() == 5);
    kani::cover!(token_ok && !use_good);
    std::mem::forget(reply);
    std::mem::forget(server);
    std::mem::forget(rt);
}

//@ ob: C03.O3
//@ tier: thorough
//@ cap: 2700
//@ rss: 10
//@ time: 1061
//@ standins: tracing lru vcoll
//@ also: C15
//@ desc: announce_peer: a peer is recorded only with a valid token, as the sender's own IP with the explicit port, or the sender's source port iff implied_port is Some(true); 203 and nothing recorded otherwise
//@ bounds: symbolic sender IP/port, announced port, implied_port in {None, Some(false), Some(true)}, token valid or arbitrary (length 0/3/4/5); capacity 1; unwind 26
//@ stubs: other arms' validators -> flagged cuts; Instant::now; getrandom::fill
//@ functions: Server::handle_request (announce_peer arm), PeersStore::add_peer, Tokens::validate
#[kani::proof]
#[kani::stub(crate::common::mutable::MutableItem::from_dht_message, mh::from_dht_message_cut)]
#[kani::stub(crate::common::signed_announce::SignedAnnounce::from_dht_request, sh::from_dht_cut)]
#[kani::stub(crate::common::immutable::validate_immutable, vi_cut)]
#[kani::stub(crate::common::routing_table::RoutingTable::closest, closest_cut)]
#[kani::stub(std::time::Instant::now, clock::now)]
#[kani::stub(getrandom::fill, rnd::fill)]
#[kani::unwind(26)]
fn c03_o3_announce_peer() {
    clock::set(0);
    let mut server = small_server(1, true);
    let rt = RoutingTable::new(Id::from(ME));
    let from = SocketAddrV4::new(kani::any::<u32>().into(), kani::any());
    let good = server.tokens.generate_token(from);
    let use_good: bool = kani::any();
    let token: Box<[u8]> = if use_good { Box::new(good) } else { any_token() };
    let port: u16 = kani::any();
    let implied_port: Option<bool> = kani::any();
    let info_hash = Id::from(T1);
    let req = RequestSpecific {
        requester_id: Id::from([2u8; 20]),
        request_type: RequestTypeSpecific::Put(PutRequest {
            token: token.clone(),
            put_request_type: PutRequestSpecific::AnnouncePeer(AnnouncePeerRequestArguments { info_hash, port, implied_port }),
        }),
    };
    let reply = server.handle_request(&rt, &rt, from, req);
    let token_ok = server.tokens.clone().validate(from, &token);
    let peers = server.peers.kani_peers(&info_hash);
    if token_ok {
        assert!(is_ack(&reply, rt.id()), "C03.O3 valid announce acknowledged");
        let expect = if implied_port == Some(true) { from } else { SocketAddrV4::new(*from.ip(), port) };
        match &peers {
            Some((n, last)) => assert!(*n == 1 && *last == Some(expect), "C03.O3 peer recorded as the sender's IP with explicit or implied port"),
            None => assert!(false, "C03.O3 acknowledged announce is stored"),
        }
    } else {
        assert!(code_of(&reply) == Some(203), "C03.O3 announce without a valid token answered 203");
        assert!(peers.is_none(), "C03.O5 rejected announce stores nothing");
    }
    assert!(!cut_reached(), "CUT: another arm reached");
    kani::cover!(token_ok && implied_port == Some(true) && port != from.port());
    kani::cover!(token_ok && implied_port == Some(false));
    kani::cover!(!token_ok);
    std::mem::forget(peers);
    std::mem::forget(reply);
    std::mem::forget(server);
    std::mem::forget(rt);
}

//@ ob: C03.O4
//@ tier: thorough
//@ cap: 3000
//@ rss: 10
//@ time: 1195
//@ standins: tracing lru vcoll
//@ also: C15
//@ desc: announce_signed_peer: the announcement is stored only with a valid token and when from_dht_request accepts it (signature verifies and |now - t| <= 45 s: leaf C03.O4p); 203 and nothing stored otherwise; the stored record carries the request's (k, t, sig)
//@ bounds: symbolic sender, timestamp (full u64), verdict of the contract, token valid or arbitrary; capacity 1; unwind 66 (32/64-byte array copies)
//@ stubs: SignedAnnounce::from_dht_request -> contract (leaf C03.O4p); other validators -> flagged cuts; Instant::now; getrandom::fill
//@ functions: Server::handle_request (announce_signed_peer arm), SignedPeersStore::add_peer
#[kani::proof]
#[kani::stub(crate::common::mutable::MutableItem::from_dht_message, mh::from_dht_message_cut)]
#[kani::stub(crate::common::signed_announce::SignedAnnounce::from_dht_request, sh::from_dht_contract)]
#[kani::stub(crate::common::immutable::validate_immutable, vi_cut)]
#[kani::stub(crate::common::routing_table::RoutingTable::closest, closest_cut)]
#[kani::stub(std::time::Instant::now, clock::now)]
#[kani::stub(getrandom::fill, rnd::fill)]
#[kani::unwind(66)]
fn c03_o4_announce_signed_peer() {
    clock::set(0);
    let mut server = small_server(1, true);
    let rt = RoutingTable::new(Id::from(ME));
    let from = SocketAddrV4::new(kani::any::<u32>().into(), kani::any());
    let good = server.tokens.generate_token(from);
    let use_good: bool = kani::any();
    let token: Box<[u8]> = if use_good { Box::new(good) } else { any_token() };
    let t: u64 = kani::any();
    let ok: bool = kani::any();
    unsafe { sh::CONTRACT_OK.v[0] = ok };
    let info_hash = Id::from(T1);
    let req = RequestSpecific {
        requester_id: Id::from([2u8; 20]),
        request_type: RequestTypeSpecific::Put(PutRequest {
            token: token.clone(),
            put_request_type: PutRequestSpecific::AnnounceSignedPeer(AnnounceSignedPeerRequestArguments { info_hash, t, k: [6; 32], sig: [8; 64] }),
        }),
    };
    let reply = server.handle_request(&rt, &rt, from, req);
    let token_ok = server.tokens.clone().validate(from, &token);
    let peers = server.signed_peers.kani_peers(&info_hash);
    if token_ok && ok {
        assert!(is_ack(&reply, rt.id()), "C03.O4 valid signed announce acknowledged");
        match &peers {
            Some((n, Some(p))) => assert!(*n == 1 && p.timestamp() == t && ends(p.key(), 6) && ends(p.signature(), 8), "C03.O4 stored announcement is the request's"),
            _ => assert!(false, "C03.O4 acknowledged announce is stored"),
        }
    } else {
        assert!(code_of(&reply) == Some(203), "C03.O4 invalid signed announce answered 203");
        assert!(peers.is_none(), "C03.O5 rejected announce stores nothing");
        if !token_ok {
            assert!(unsafe { sh::CONTRACT_CALLS.v } == 0, "C03.O4 token checked before the signature");
        }
    }
    assert!(!cut_reached(), "CUT: another arm reached");
    kani::cover!(token_ok && ok);
    kani::cover!(token_ok && !ok);
    kani::cover!(!token_ok);
    std::mem::forget(peers);
    std::mem::forget(reply);
    std::mem::forget(server);
    std::mem::forget(rt);
}

//@ ob: C03.O6
//@ rss: 0.9
//@ time: 118
//@ tier: quick
//@ cap: 800
//@ standins: tracing lru vcoll
//@ desc: a request vetoed by the configured request filter gets no reply and changes nothing: stores untouched, token secrets not rotated even when rotation is due; the filter is consulted exactly once per request
//@ bounds: request kind symbolic among ping / get / put_immutable / announce_peer with a valid token; clock symbolic (rotation due or not); unwind 26
//@ stubs: validators -> flagged cuts (never reached when vetoed); Instant::now; getrandom::fill
//@ functions: Server::handle_request (filter gate), RequestFilter dyn dispatch
#[kani::proof]
#[kani::stub(crate::common::mutable::MutableItem::from_dht_message, mh::from_dht_message_cut)]
#[kani::stub(crate::common::signed_announce::SignedAnnounce::from_dht_request, sh::from_dht_cut)]
#[kani::stub(crate::common::immutable::validate_immutable, vi_cut)]
#[kani::stub(crate::common::routing_table::RoutingTable::closest, closest_cut)]
#[kani::stub(std::time::Instant::now, clock::now)]
#[kani::stub(getrandom::fill, rnd::fill)]
#[kani::unwind(26)]
fn c03_o6_filter_veto() {
    clock::set(0);
    let mut server = small_server(1, false);
    let rt = RoutingTable::new(Id::from(ME));
    let from = SocketAddrV4::new([10, 0, 0, 7].into(), 6881);
    let token = server.tokens.generate_token(from);
    let dt: u64 = kani::any();
    kani::assume(dt < 100_000);
    clock::set(dt);
    let kind: u8 = kani::any();
    let target = Id::from(T1);
    let request_type = match kind {
        0 => RequestTypeSpecific::Ping,
        1 => RequestTypeSpecific::GetValue(GetValueRequestArguments { target, seq: None, salt: None }),
        2 => RequestTypeSpecific::Put(PutRequest { token: Box::new(token), put_request_type: PutRequestSpecific::PutImmutable(PutImmutableRequestArguments { target, v: Box::new([1]) }) }),
        _ => RequestTypeSpecific::Put(PutRequest { token: Box::new(token), put_request_type: PutRequestSpecific::AnnouncePeer(AnnouncePeerRequestArguments { info_hash: target, port: 1, implied_port: None }) }),
    };
    let reply = server.handle_request(&rt, &rt, from, RequestSpecific { requester_id: Id::from([2u8; 20]), request_type });
    assert!(reply.is_none(), "C03.O6 vetoed request gets no reply");
    assert!(unsafe { GATE_CALLS.v } == 1, "C03.O6 filter consulted once");
    assert!(server.immutable_values.len() == 0 && server.mutable_values.len() == 0, "C03.O6 vetoed request stores nothing");
    assert!(server.peers.kani_info_hashes() == 0 && server.signed_peers.kani_info_hashes() == 0, "C03.O6 vetoed request stores nothing");
    // the secrets were not rotated: the token issued before is still the *current* one
    assert!(server.tokens.generate_token(from) == token, "C03.O6 vetoed request does not rotate secrets");
    assert!(!cut_reached(), "CUT: a validator was reached");
    kani::cover!(kind == 2 && dt > 300);
    kani::cover!(kind == 0);
    std::mem::forget(reply);
    std::mem::forget(server);
    std::mem::forget(rt);
}

static mut H_ANY: crate::verif_env::Ghost<[u8; 20]> = crate::verif_env::ghost(38, [0; 20]);
fn h_any(_v: &[u8]) -> [u8; 20] {
    unsafe { H_ANY.v }
}

//@ ob: C03.O7
//@ tier: thorough
//@ cap: 2400
//@ rss: 6
//@ time: 485
//@ standins: tracing lru vcoll
//@ desc: size boundaries with a valid token: an immutable value of 1001 bytes is refused with 205 and one of 1000 bytes passes the size check; a mutable value of 1001 bytes => 205, salt of 65 bytes => 207, 1000 / 64 pass; refused requests store nothing
//@ bounds: concrete lengths 1000/1001 (value) and 64/65 (salt), concrete contents; hash is an arbitrary pre-drawn digest (uninterpreted); contract verdicts true; capacity 1; unwind 26
//@ stubs: hash_immutable -> arbitrary digest; from_dht_message -> contract; Instant::now; getrandom::fill
//@ functions: Server::handle_request (put_immutable and put_mutable arms: length checks)
#[kani::proof]
#[kani::stub(crate::common::mutable::MutableItem::from_dht_message, mh::from_dht_message_contract)]
#[kani::stub(crate::common::signed_announce::SignedAnnounce::from_dht_request, sh::from_dht_cut)]
#[kani::stub(crate::common::immutable::hash_immutable, h_any)]
#[kani::stub(crate::common::routing_table::RoutingTable::closest, closest_cut)]
#[kani::stub(std::time::Instant::now, clock::now)]
#[kani::stub(getrandom::fill, rnd::fill)]
#[kani::unwind(26)]
fn c03_o7_size_boundaries() {
    clock::set(0);
    unsafe {
        H_ANY.v = T1;
        mh::CONTRACT_SIG_VALID.v = true;
        mh::CONTRACT_TARGET_OK.v = true;
    }
    let mut server = small_server(1, true);
    let rt = RoutingTable::new(Id::from(ME));
    let from = SocketAddrV4::new([10, 0, 0, 7].into(), 6881);
    let token = server.tokens.generate_token(from);
    let target = Id::from(T1);
    let which: u8 = kani::any();
    kani::assume(which < 6);
    let big_v = which == 1 || which == 3;
    let v: Box<[u8]> = if big_v { vec![0u8; 1001].into_boxed_slice() } else { vec![0u8; 1000].into_boxed_slice() };
    let put = if which < 2 {
        PutRequestSpecific::PutImmutable(PutImmutableRequestArguments { target, v })
    } else {
        let salt: Option<Box<[u8]>> = match which {
            4 => Some(vec![0u8; 64].into_boxed_slice()),
            5 => Some(vec![0u8; 65].into_boxed_slice()),
            _ => None,
        };
        PutRequestSpecific::PutMutable(PutMutableRequestArguments { target, v, k: [1; 32], seq: 1, sig: [5; 64], salt, cas: None })
    };
    let reply = server.handle_request(&rt, &rt, from, RequestSpecific {
        requester_id: Id::from([2u8; 20]),
        request_type: RequestTypeSpecific::Put(PutRequest { token: Box::new(token), put_request_type: put }),
    });
    let code = code_of(&reply);
    let stored = server.immutable_values.len() + server.mutable_values.len();
    if big_v {
        assert!(code == Some(205) && stored == 0, "C03.O7 value over 1000 bytes refused with 205");
    } else if which == 5 {
        assert!(code == Some(207) && stored == 0, "C03.O7 salt over 64 bytes refused with 207");
    } else {
        assert!(is_ack(&reply, rt.id()) && stored == 1, "C03.O7 value of 1000 bytes / salt of 64 bytes accepted");
    }
    assert!(!cut_reached(), "CUT: another arm reached");
    kani::cover!(which == 0);
    kani::cover!(which == 1);
    kani::cover!(which == 4);
    kani::cover!(which == 5);
    std::mem::forget(reply);
    std::mem::forget(server);
    std::mem::forget(rt);
}

//@ ob: C15.O3b
//@ also: C03
//@ tier: thorough
//@ cap: 2400
//@ rss: 8
//@ time: 459
//@ standins: tracing lru vcoll
//@ desc: token lifetime through the server's lazy rotation: a token issued while handling a request at t0 is accepted by a put arriving at t1 whenever t1 - t0 <= 300 s (lookup-then-put always works), whatever rotations the request at t1 triggers; (that the secret is gone after two rotations is the leaf C15.O3)
//@ bounds: secrets symbolic; last rotation at symbolic age <= 400 s before t0; t1 - t0 symbolic <= 1000 s; unwind 26
//@ stubs: other arms' validators -> flagged cuts; Instant::now; getrandom::fill
//@ functions: Server::handle_request (lazy rotation + announce_peer arm), Tokens::{should_update,rotate,validate,generate_token}
#[kani::proof]
#[kani::stub(crate::common::mutable::MutableItem::from_dht_message, mh::from_dht_message_cut)]
#[kani::stub(crate::common::signed_announce::SignedAnnounce::from_dht_request, sh::from_dht_cut)]
#[kani::stub(crate::common::immutable::validate_immutable, vi_cut)]
#[kani::stub(crate::common::routing_table::RoutingTable::closest, closest_probe)]
#[kani::stub(std::time::Instant::now, clock::now)]
#[kani::stub(getrandom::fill, rnd::fill)]
#[kani::unwind(26)]
fn c15_o3b_token_lifetime() {
    clock::set(0);
    let mut server = small_server(1, true); // secrets drawn at time 0
    // both requests may trigger a rotation (t0 > 300 s, dt > 300 s): two fresh secrets
    let fresh: [u8; 40] = kani::env();
    rnd::preload(&fresh);
    let rt = RoutingTable::new(Id::from(ME));
    let from = SocketAddrV4::new([10, 0, 0, 7].into(), 6881);
    let t0: u64 = kani::any();
    let dt: u64 = kani::any();
    kani::assume(t0 <= 400 && dt <= 1000);
    // request at t0: a get, whose reply carries the token
    clock::set(t0);
    let info_hash = Id::from(T1);
    let r0 = server.handle_request(&rt, &rt, from, RequestSpecific {
        requester_id: Id::from([2u8; 20]),
        request_type: RequestTypeSpecific::GetPeers(GetPeersRequestArguments { info_hash }),
    });
    let token: Box<[u8]> = match &r0 {
        Some(MessageType::Response(ResponseSpecific::NoValues(a))) => a.token.clone(),
        _ => { assert!(false, "C15.O3b get_peers on an empty store answers NoValues"); Box::new([]) }
    };
    // put at t1 = t0 + dt with that token
    clock::set(t0 + dt);
    let r1 = server.handle_request(&rt, &rt, from, RequestSpecific {
        requester_id: Id::from([2u8; 20]),
        request_type: RequestTypeSpecific::Put(PutRequest { token, put_request_type: PutRequestSpecific::AnnouncePeer(AnnouncePeerRequestArguments { info_hash, port: 1, implied_port: None }) }),
    });
    if dt <= 300 {
        assert!(is_ack(&r1, rt.id()), "C15.O3 token valid for at least 5 minutes after issue");
    }
    assert!(!cut_reached(), "CUT: another arm or random bytes reached");
    kani::cover!(dt <= 300 && t0 > 300);
    kani::cover!(dt > 300 && is_ack(&r1, rt.id()));
    std::mem::forget(r0);
    std::mem::forget(r1);
    std::mem::forget(server);
    std::mem::forget(rt);
}


fn token_expiry(two_pings: bool) {
    clock::set(0);
    let mut server = small_server(1, true);
    let fresh: [u8; 60] = kani::env();
    rnd::preload(&fresh);
    let s0 = server.tokens.kani_secrets().0;
    // the fresh secrets drawn by later rotations differ from the issuing one
    let mut eq = [true; 3];
    let mut k = 0;
    while k < 3 {
        let mut j = 0;
        while j < 20 {
            if fresh[20 * k + j] != s0[j] { eq[k] = false; }
            j += 1;
        }
        k += 1;
    }
    kani::assume(!eq[0] && !eq[1] && !eq[2]);
    let rt = RoutingTable::new(Id::from(ME));
    let from = SocketAddrV4::new([10, 0, 0, 7].into(), 6881);
    let other = SocketAddrV4::new([10, 0, 0, 8].into(), 6881);
    let info_hash = Id::from(T1);
    let r0 = server.handle_request(&rt, &rt, from, RequestSpecific {
        requester_id: Id::from([2u8; 20]),
        request_type: RequestTypeSpecific::GetPeers(GetPeersRequestArguments { info_hash }),
    });
    let token: Box<[u8]> = match &r0 {
        Some(MessageType::Response(ResponseSpecific::NoValues(a))) => a.token.clone(),
        _ => { assert!(false, "C15.O3b get_peers on an empty store answers NoValues"); Box::new([]) }
    };
    let d1: u64 = kani::any();
    let d2: u64 = kani::any();
    let d3: u64 = kani::any();
    // either two pings more than 300 s apart, or one ping and then silence for more than 300 s: in
    // the second case the put itself is the request that triggers the second rotation, and it must
    // be checked against the rotated secrets
    kani::assume(d1 > 300 && d1 <= 1000 && d2 > 300 && d2 <= 1000 && d3 <= 1000 && (two_pings || d3 > 300));
    clock::set(d1);
    let p1 = server.handle_request(&rt, &rt, other, RequestSpecific { requester_id: Id::from([3u8; 20]), request_type: RequestTypeSpecific::Ping });
    let mut t_put = d1 + d3;
    let mut p2_ok = true;
    if two_pings {
        clock::set(d1 + d2);
        t_put = d1 + d2 + d3;
        let p2 = server.handle_request(&rt, &rt, other, RequestSpecific { requester_id: Id::from([3u8; 20]), request_type: RequestTypeSpecific::Ping });
        p2_ok = p2.is_some();
        std::mem::forget(p2);
    }
    clock::set(t_put);
    let r1 = server.handle_request(&rt, &rt, from, RequestSpecific {
        requester_id: Id::from([2u8; 20]),
        request_type: RequestTypeSpecific::Put(PutRequest { token, put_request_type: PutRequestSpecific::AnnouncePeer(AnnouncePeerRequestArguments { info_hash, port: 1, implied_port: None }) }),
    });
    // two rotations happened (one per ping, each more than 300 s after the previous one): unless
    // the fresh secrets happen to reproduce the token (a 2^-32 event per secret the solver can
    // pick), the put is refused.  The statement is therefore made for secrets under which the old
    // token is not a token of the new secrets:
    let (curr, prev) = server.tokens.kani_secrets();
    assert!(curr != s0 && prev != s0, "C15.O3 after two rotation periods of any traffic the issuing secret is in neither slot");
    // (whether the old token happens to be a token of the new secrets is a 2^-32 coincidence the
    // solver may pick; outside that coincidence the put is refused)
    let collides = server.tokens.clone().validate(from, match &r0 { Some(MessageType::Response(ResponseSpecific::NoValues(a))) => &a.token, _ => &[] });
    if !collides {
        assert!(code_of(&r1) == Some(203), "C15.O3 a token older than two rotation periods is refused on a node that keeps receiving requests");
    }
    assert!(p1.is_some() && p2_ok, "C18.O1 server mode answers through the server");
    assert!(!cut_reached(), "CUT: another arm or random bytes reached");
    kani::cover!(!collides && (d3 == 0 || !two_pings));
    kani::cover!(code_of(&r1) == Some(203));
    std::mem::forget(r0);
    std::mem::forget(r1);
    std::mem::forget(p1);
    std::mem::forget(server);
    std::mem::forget(rt);
}

//@ ob: C15.O3c
//@ tier: thorough
//@ cap: 2400
//@ rss: 8
//@ time: 694
//@ standins: tracing lru vcoll
//@ desc: token expiry on a node that keeps receiving requests of any kind: a token issued with a get_peers reply at t0, followed by two further requests that carry no token (pings) more than 300 s apart, is refused with 203 when presented afterwards
//@ bounds: symbolic secrets and fresh random bytes (assumed to differ from the issuing secret); gaps d1, d2 symbolic in 301..=1000 s, d3 symbolic <= 1000 s; 4 requests (get_peers, ping, ping, announce_peer); unwind 26
//@ stubs: other arms' validators -> flagged cuts; RoutingTable::closest -> probe; Instant::now; getrandom::fill
//@ functions: Server::handle_request (lazy rotation on every request kind), Tokens::{should_update,rotate,validate,generate_token}
#[kani::proof]
#[kani::stub(crate::common::mutable::MutableItem::from_dht_message, mh::from_dht_message_cut)]
#[kani::stub(crate::common::signed_announce::SignedAnnounce::from_dht_request, sh::from_dht_cut)]
#[kani::stub(crate::common::immutable::validate_immutable, vi_cut)]
#[kani::stub(crate::common::routing_table::RoutingTable::closest, closest_probe)]
#[kani::stub(std::time::Instant::now, clock::now)]
#[kani::stub(getrandom::fill, rnd::fill)]
#[kani::unwind(26)]
fn c15_o3c_token_expires_under_any_traffic() {
    token_expiry(true);
}

//@ ob: C15.O3d
//@ tier: thorough
//@ cap: 2400
//@ rss: 8
//@ time: 637
//@ also: C03
//@ standins: tracing lru vcoll
//@ desc: token expiry when the put itself triggers the second rotation: a token issued with a get_peers reply at t0, one later request (a ping) more than 300 s after it, then more than 300 s of silence: the put presenting the old token is refused with 203 -- the token is checked against the secrets as they are AFTER the rotation its own arrival causes, so an idle node does not honour arbitrarily old tokens
//@ bounds: symbolic secrets and fresh random bytes (assumed to differ from the issuing secret); gaps d1, d2 symbolic in 301..=1000 s, d3 symbolic <= 1000 s; 4 requests (get_peers, ping, ping, announce_peer); unwind 26
//@ stubs: other arms' validators -> flagged cuts; RoutingTable::closest -> probe; Instant::now; getrandom::fill
//@ functions: Server::handle_request (lazy rotation on every request kind), Tokens::{should_update,rotate,validate,generate_token}
#[kani::proof]
#[kani::stub(crate::common::mutable::MutableItem::from_dht_message, mh::from_dht_message_cut)]
#[kani::stub(crate::common::signed_announce::SignedAnnounce::from_dht_request, sh::from_dht_cut)]
#[kani::stub(crate::common::immutable::validate_immutable, vi_cut)]
#[kani::stub(crate::common::routing_table::RoutingTable::closest, closest_probe)]
#[kani::stub(std::time::Instant::now, clock::now)]
#[kani::stub(getrandom::fill, rnd::fill)]
#[kani::unwind(26)]
fn c15_o3d_token_expires_when_put_rotates() {
    token_expiry(false);
}
